#!/usr/bin/env python3
"""Sensitivity testing: apply a textual mutation to a scratch copy of /repo/src and run checks against it.

usage: tools/mut.py run <mutant-name> [<Cxx> ...]      (mutants are listed in tools/mutants.json)
       tools/mut.py all [-j N]                          every mutant x the checks listed for it
       tools/mut.py adhoc <file> <old> <new> <Cxx>...

Scratch copies live under /tmp and are removed afterwards. Nothing here is used by a registered check.
"""
import json, os, shutil, subprocess, sys, tempfile, concurrent.futures as cf

HERE = os.path.dirname(os.path.dirname(os.path.abspath(__file__)))
REPO_SRC = "/repo/src"


def run_mutant(name, spec, props, tier="quick"):
    d = tempfile.mkdtemp(prefix="vf-mut-")
    try:
        shutil.copytree(REPO_SRC, os.path.join(d, "src"), ignore=shutil.ignore_patterns("__pycache__", "*.egg-info"))
        for edit in spec["edits"]:
            p = os.path.join(d, "src", "sansldap", edit["file"])
            s = open(p).read()
            if s.count(edit["old"]) != 1:
                return name, {pr: f"SPEC-ERROR old string occurs {s.count(edit['old'])}x in {edit['file']}" for pr in props}
            open(p, "w").write(s.replace(edit["old"], edit["new"]))
        res = {}
        for pr in props:
            env = dict(os.environ, VERIF_REPO_SRC=os.path.join(d, "src"), VERIF_PROCS=os.environ.get("MUT_PROCS", "4"))
            out = tempfile.mkdtemp(prefix="vf-mut-out-")
            # run from a private copy of the evidence dir? evidence is rewritten; use VERIF_EVIDENCE_DIR to divert
            env["VERIF_EVIDENCE_DIR"] = out
            p = subprocess.run([os.path.join(HERE, "check"), pr, "--tier", tier, "--no-shrink"], env=env, capture_output=True, text=True, cwd=HERE)
            keys = [l.strip()[8:] for l in p.stdout.splitlines() if l.strip().startswith("bucket:")]
            res[pr] = f"rc={p.returncode} " + ("; ".join(sorted(set(keys)))[:300] if keys else (p.stderr.strip().splitlines()[-1][:200] if p.returncode == 2 and p.stderr.strip() else ""))
            shutil.rmtree(out, ignore_errors=True)
        return name, res
    finally:
        shutil.rmtree(d, ignore_errors=True)


def main():
    specs = json.load(open(os.path.join(HERE, "tools", "mutants.json")))
    cmd = sys.argv[1]
    if cmd == "run":
        name = sys.argv[2]
        props = sys.argv[3:] or specs[name]["expect"]
        print(json.dumps(run_mutant(name, specs[name], props), indent=1))
    elif cmd == "all":
        j = int(sys.argv[sys.argv.index("-j") + 1]) if "-j" in sys.argv else 4
        only = [a for a in sys.argv[2:] if a.startswith("C")]
        jobs = {}
        with cf.ThreadPoolExecutor(j) as ex:
            for name, spec in specs.items():
                props = [p for p in spec["expect"] if not only or p in only]
                if props:
                    jobs[ex.submit(run_mutant, name, spec, props)] = name
            missed = 0
            for f in cf.as_completed(jobs):
                name, res = f.result()
                for pr, r in res.items():
                    ok = r.startswith("rc=1")
                    missed += (not ok)
                    print(f"{'CAUGHT' if ok else 'MISSED'} {name:45s} {pr} {r}", flush=True)
        print("missed:", missed)
    elif cmd == "adhoc":
        f, old, new = sys.argv[2:5]
        print(json.dumps(run_mutant("adhoc", {"edits": [{"file": f, "old": old, "new": new}]}, sys.argv[5:]), indent=1))


main()
