#!/usr/bin/env python3
"""Regenerates section 7 of DESIGN.md (catch matrix) from tools/mutants.json and seeded/*/meta.json."""
import json, os
HERE = os.path.dirname(os.path.dirname(os.path.abspath(__file__)))
d = json.load(open(os.path.join(HERE, "tools", "mutants.json")))
mrows = ["| mutant (tools/mutants.json) | what it does | caught by (quick tier) |", "|---|---|---|"]
for name, spec in sorted(d.items()):
    mrows.append(f"| `{name}` | {spec['why'].replace('|', '/')[:150]} | {', '.join(spec['expect']) or '— (equivalent)'} |")
srows = ["| seeded change | what it needs to manifest | caught by | note |", "|---|---|---|---|"]
n = missed_first = 0
for dd in sorted(os.listdir(os.path.join(HERE, "seeded"))):
    m = json.load(open(os.path.join(HERE, "seeded", dd, "meta.json")))
    needs = (m.get("needs_to_manifest") or "").replace("\n", " ").replace("|", "/")
    needs = needs if len(needs) <= 230 else needs[:227] + "..."
    note = (m.get("note") or "").replace("|", "/")
    note = note if len(note) <= 260 else note[:257] + "..."
    n += 1
    missed_first += bool(m.get("note"))
    srows.append(f"| `seeded/{dd}` | {needs} | {', '.join(m['caught_by_quick_checks']) or 'NOT CAUGHT'} | {note} |")
NL = "\n"
sec = f"""

## 7. Which checks catch which changes

Two independent sources of "realistic breakage" were used; both are reproducible from the repository.

### 7.1 Sensitivity plan (textual mutants, `tools/mut.py all`)

Each mutant is applied to a scratch copy of /repo/src under /tmp (removed afterwards) and the quick tier of the listed
checks is run against it with `VERIF_REPO_SRC`. It contains every mutant named in the S-lines of §2, a revert of each
of the repairs of §3, and a few more. Result of the last complete run: every mutant is caught by the quick tier of the
check(s) in the third column; the one exception is an equivalent mutant (explained in its row).

{NL.join(mrows)}

### 7.2 Seeded changes written by independent sub-agents (`seeded/<id>-<n>/`)

In three rounds, fresh sub-agents were given only the text of a property and a scratch git worktree of /repo under /tmp
(nothing from /verif) and asked for two changes per property that break it, keep the 413 existing tests green and need
something specific to manifest, each with a demonstration program. Round 1 (-1, -2: one agent per property) and round 2
(-3, -4: also told to prefer cooperating sites and less obvious places) covered all 19 properties; round 3 (-5, -6: ten
properties, told to make the change HARD TO FIND BY RANDOM TESTING - a conjunction of two or three specific conditions -
and to avoid the ideas of the earlier rounds) was aimed at the properties whose checks had needed strengthening. Every change was confirmed here before it was kept
(`tools/seedcheck.sh`: suite with the change: 413 passed; demo without the change: exit 0; demo with the change: exit 1)
and then the quick tier of the property's check was run against the changed tree. {n} changes were kept. {n - missed_first}
were caught by the first version of the checks; {missed_first} were missed at first and led to the strengthenings described in
the note column (all are caught now unless the third column says otherwise).

{NL.join(srows)}

Two things the sub-agents pointed out on the *unchanged* tree were taken up: `from_string('\\ud800...')` escaping as
UnicodeEncodeError (a genuine C15 defect the generator's alphabet had excluded; repaired, see known_findings.json), and
the UnbindRequest `62 00` encoding (already the open known finding).
"""
p = os.path.join(HERE, "DESIGN.md")
s = open(p).read()
if "## 7. Which checks catch which changes" in s:
    s = s[: s.index("\n\n## 7. Which checks catch which changes")]
open(p, "w").write(s + sec)
print("section 7 regenerated:", n, "seeded,", len(d), "mutants")
