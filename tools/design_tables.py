#!/usr/bin/env python3
"""Regenerates section 7 of DESIGN.md (catch matrix) from tools/mutants.json and seeded/*/meta.json."""
import json, os
HERE = os.path.dirname(os.path.dirname(os.path.abspath(__file__)))
d = json.load(open(os.path.join(HERE, "tools", "mutants.json")))
mrows = ["| mutant (tools/mutants.json) | what it does | caught by (quick tier) |", "|---|---|---|"]
for name, spec in sorted(d.items()):
    mrows.append(f"| `{name}` | {spec['why'].replace('|', '/')[:150]} | {', '.join(spec['expect']) or '— (equivalent)'} |")
srows = ["| seeded change | what it needs to manifest | caught by | note |", "|---|---|---|---|"]
n = missed_first = outside = 0
for dd in sorted(os.listdir(os.path.join(HERE, "seeded"))):
    m = json.load(open(os.path.join(HERE, "seeded", dd, "meta.json")))
    needs = (m.get("needs_to_manifest") or "").replace("\n", " ").replace("|", "/")
    needs = needs if len(needs) <= 230 else needs[:227] + "..."
    note = (m.get("note") or "").replace("|", "/")
    note = note if len(note) <= 260 or m.get("outside_domain") else note[:257] + "..."
    n += 1
    missed_first += "missed " in (m.get("note") or "").lower()
    outside = outside + 1 if m.get("outside_domain") else outside
    srows.append(f"| `seeded/{dd}` | {needs} | {', '.join(m['caught_by_quick_checks']) or ('not caught - judged outside the property (see note)' if m.get('outside_domain') else 'NOT CAUGHT')} | {note} |")
NL = "\n"
sec = f"""

## 7. Which checks catch which changes

Two independent sources of "realistic breakage" were used; both are reproducible from the repository.

### 7.1 Sensitivity plan (textual mutants, `tools/mut.py all`)

Each mutant is applied to a scratch copy of /repo/src under /tmp (removed afterwards) and the quick tier of the listed
checks is run against it with `VERIF_REPO_SRC`. It contains every mutant named in the S-lines of §2, a revert of each
of the repairs of §3, and a few more. Result of the last complete run: every mutant is caught by the quick tier of the
check(s) in the third column; the one exception is an equivalent mutant (explained in its row).

{NL.join(mrows)}

### 7.2 Seeded changes written by independent sub-agents (`seeded/<id>-<n>/`)

In eight rounds, fresh sub-agents were given only the text of a property and a scratch git worktree of /repo under /tmp
(nothing from /verif) and asked for two changes per property that break it, keep the 413 existing tests green and need
something specific to manifest, each with a demonstration program. Round 1 (-1, -2: one agent per property) and round 2
(-3, -4: also told to prefer cooperating sites and less obvious places) covered all 19 properties; round 3 (-5, -6: ten
properties, told to make the change HARD TO FIND BY RANDOM TESTING - a conjunction of two or three specific conditions -
and to avoid the ideas of the earlier rounds) was aimed at the properties whose checks had needed strengthening; round 4
(-5, -6 of the remaining nine properties) used the same "hard to find" brief; round 5 (-7, -8: all 19 properties, one or
two changes each) asked for changes made of TWO COOPERATING EDITS, each harmless alone; round 6 (-9, -10: all 19
properties) asked for one plausible OPTIMISATION (cache / memo keyed on too little, fast path, buffer reuse) and one
ERROR-HANDLING REFACTOR (reordered validation, changed except clauses, moved rollback) per property, whose effect shows
only for a particular input class, on a later use of an object, or after a particular earlier call; round 7 (-11,
-12: all 19 properties) asked for one REPRESENTATION change (bytes / bytearray / memoryview, int / IntEnum / bool, None /
empty, Unicode normalisation / case / width, falsy-but-present values) and one BOUNDARY change (an off-by-one or wrong
comparison that is wrong at ONE exact size / count / position / value, preferably not a power of two); round 8 (-13,
-14: all 19 properties) asked for one ORDER / MULTIPLICITY change (lists, de-duplication, first-wins / last-wins, loops
that treat the first or last element specially) and one ERROR-PATH change (what a failure carries, consumes or leaves
behind, whether a later correct call still works). Every change was confirmed here before it was kept
(`tools/seedcheck.sh`: suite with the change: 413 passed; demo without the change: exit 0; demo with the change: exit 1)
and then the quick tier of the property's check was run against the changed tree. {n} changes were kept. {n - missed_first - outside}
were caught by the first version of the checks; {missed_first} were missed at first and led to the strengthenings described in
the note column (all are caught now); {outside} are archived although they are NOT caught: they were judged to lie outside
the property as stated (their notes say why), and `tools/seedrun.py` expects the checks to stay quiet on them.

{NL.join(srows)}

Two things the sub-agents pointed out on the *unchanged* tree were taken up: `from_string('\\ud800...')` escaping as
UnicodeEncodeError (a genuine C15 defect the generator's alphabet had excluded; repaired, see known_findings.json), and
the UnbindRequest `62 00` encoding (already the open known finding).
"""
p = os.path.join(HERE, "DESIGN.md")
s = open(p).read()
if "## 7. Which checks catch which changes" in s:
    s = s[: s.index("\n\n## 7. Which checks catch which changes")]
open(p, "w").write(s + sec)
print("section 7 regenerated:", n, "seeded,", len(d), "mutants")


def bounds_section():
    """Section 8: what the committed evidence files say was actually run (quick tier)."""
    import glob
    rows = ["| property | cases | distinct non-trivial | parts (cases; * = finite sub-domain enumerated completely) | wall s |", "|---|---|---|---|---|"]
    for f in sorted(glob.glob(os.path.join(HERE, "evidence", "C*.json"))):
        e = json.load(open(f))
        c = e["coverage"]
        parts = "; ".join(f"{k} {v['evaluations']}{'*' if v.get('exhaustive') else ''}" for k, v in c.get("parts", {}).items())
        rows.append(f"| {e['property_id']} ({e['tier']}, seed {e['seed']}) | {c['evaluations']} | {c['distinct_nontrivial']} | {parts} | {e['wall_s']} |")
    return NL.join(rows)


THOROUGH_LOG = """| property | thorough tier, seed 1 (background runs on this machine; F = final code, R7 = code after seeding round 7, R4 = after round 4) |
|---|---|
| C01 | F: 7 269 166 cases (6.4 M atheris executions), 725 017 distinct non-trivial, 487 s |
| C02 | F: 245 554 cases, 154 224 distinct non-trivial, 391 s (the run before it exited 2: three bulk shards killed - quadratic probes, repaired, see 6.3) |
| C03 | F: 857 522 cases, 640 174 distinct non-trivial, 263 s |
| C04 | F: 320 000 cases, 194 627 distinct non-trivial, 386 s |
| C05 | R7: 7 052 920 cases (6.4 M of them atheris executions in 16 campaigns), 2 438 009 distinct non-trivial, 2540 s under load (R4: 1153 s) |
| C06 | F: 320 000 cases, 234 879 distinct non-trivial, 893 s |
| C07 | F: 1 155 889 cases, 747 689 distinct non-trivial, 255 s |
| C08 | F: 480 000 histories, 318 321 distinct non-trivial, 1468 s |
| C09 | F: 249 600 histories, 110 894 distinct non-trivial, 1812 s (long-session part then reduced from 600 to 80 examples per shard) |
| C10 | F: 736 000 histories, 373 364 distinct non-trivial, 2102 s |
| C11 | F: 160 000 joint histories, 38 297 distinct non-trivial, 520 s |
| C12 | F: 640 000 histories, 108 342 distinct non-trivial, 1362 s |
| C13 | F: 928 457 cases (34 871 more skipped by the time budget), 736 168 distinct non-trivial, 1550 s |
| C14 | F: 800 000 sentences, 274 523 distinct non-trivial, 1376 s |
| C15 | R7: 10 719 860 cases (8 M atheris executions), 7 209 205 distinct non-trivial, 2597 s under load |
| C16 | F: 481 608 cases, 432 883 distinct non-trivial, 433 s |
| C17 | F: 3 360 000 cases (2.4 M atheris executions), 834 223 distinct non-trivial, 965 s |
| C18 | earlier: 662 089 families, 355 770 distinct non-trivial, 4378 s - found defect 19 (two buckets, one root cause), see section 3; re-run after the repair: exit 0 |
| C19 | F: 241 352 cases, 171 643 distinct non-trivial, 400 s |"""

s = open(p).read()
if "## 8. Bounds actually run" in s:
    s = s[: s.index("\n\n## 8. Bounds actually run")]
s += f"""

## 8. Bounds actually run

Quick tier, from the committed evidence files (written by the checks themselves, `evidence/<id>.json`):

{bounds_section()}

Thorough tier (every check was run in the thorough tier several times during the build; the last run of each exited 0;
the exceptions on the way were C18, whose two buckets were a genuine defect that was then repaired, and C02, a harness
error (exit 2) that was repaired; the time budget did not allow a last run of every check on the very last commit - the
first column says which code each number comes from; thorough evidence is not committed because the evidence file of a
property is rewritten by every run and the committed one is the quick run):

{THOROUGH_LOG}

Every quick check was additionally run at VERIF_SEED = 2, 3, 5, 8, 13 and 21..28 on the repaired tree in background
snapshots, and again at seeds 2, 3, 5 (8, 13 before the last two rounds) on the final code; the only alarms were the
harness false alarm at seed 8 described in §6.4 and a harness error (exit 2) of C14 at seed 2 described in §6.3 (both
corrected).
"""
open(p, "w").write(s)
print("section 8 regenerated")
