#!/usr/bin/env python3
"""usage: tools/seedstore.py <Cxx> <i> <caught-by comma list or NONE> [note]  - archive a confirmed seeded change under /verif/seeded/"""
import json, os, shutil, sys
P, I, caught = sys.argv[1], sys.argv[2], sys.argv[3]
note = sys.argv[4] if len(sys.argv) > 4 else ""
src = os.environ.get("SEED_PREFIX", "/tmp/seed2-") + f"{P}/_seed"
dst = os.path.join(os.path.dirname(os.path.dirname(os.path.abspath(__file__))), "seeded", f"{P}-{int(I) + int(os.environ.get('SEED_OFFSET', '2'))}")
os.makedirs(dst, exist_ok=True)
shutil.copy(f"{src}/change{I}.diff", f"{dst}/patch.diff")
shutil.copy(f"{src}/demo{I}.py", f"{dst}/demo.py")
meta = json.load(open(f"{src}/meta{I}.json"))
out = {
    "breaks_property": meta.get("property", P),
    "summary": meta.get("summary"),
    "needs_to_manifest": meta.get("needs"),
    "origin": "fresh sub-agent given only the property text and a scratch worktree of /repo (no access to /verif)",
    "confirmed": {
        "existing_test_suite_with_change": "413 passed (PYTHONPATH=<worktree>/src /venv/bin/python -m pytest -q -p no:cacheprovider tests --ignore=tests/integration)",
        "demo_without_change": "exit 0",
        "demo_with_change": "exit 1",
    },
    "what_was_run": f"tools/seedcheck.sh {P} {I}  (applies patch.diff in the scratch worktree, runs the suite, the demo, and ./check <id> --tier quick with VERIF_REPO_SRC pointing at the changed tree)",
    "caught_by_quick_checks": [] if caught == "NONE" else caught.split(","),
    "note": note,
}
json.dump(out, open(f"{dst}/meta.json", "w"), indent=1)
print("stored", dst)
