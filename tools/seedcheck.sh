#!/bin/bash
# usage: tools/seedcheck.sh <Cxx> <i> [extra check ids...]
# Confirms a seeded change in its scratch worktree /tmp/seed-<Cxx> (tests pass, demo passes without / fails with),
# then runs the quick check(s) against the changed tree. Leaves the worktree clean.
P=$1; I=$2; shift 2
W=${SEED_PREFIX:-/tmp/seed2-}$P
HERE="$(cd "$(dirname "${BASH_SOURCE[0]}")/.." && pwd)"
git -C $W checkout -q -- src
echo "== demo on clean tree"; (cd $W/_seed && PYTHONPATH=$W/src timeout 300 /venv/bin/python demo$I.py >/dev/null 2>&1; echo "demo rc=$?")
git -C $W apply $W/_seed/change$I.diff || { echo "APPLY FAILED"; exit 1; }
echo "== tests with change"; (cd $W && PYTHONPATH=$W/src timeout 600 /venv/bin/python -m pytest -q -p no:cacheprovider tests --ignore=tests/integration 2>&1 | tail -1)
echo "== demo with change"; (cd $W/_seed && PYTHONPATH=$W/src timeout 300 /venv/bin/python demo$I.py >/dev/null 2>&1; echo "demo rc=$?")
for C in $P "$@"; do
  OUT=$(mktemp -d)
  echo "== ./check $C (quick) against the change"
  (cd $HERE && VERIF_REPO_SRC=$W/src VERIF_EVIDENCE_DIR=$OUT ./check $C --tier quick --no-shrink 2>/dev/null | grep -E "VIOLATION|bucket:|quick seed|HARNESS" | cut -c1-220 | head -12; echo "check rc=${PIPESTATUS[0]}")
  rm -rf $OUT
done
git -C $W checkout -q -- src
