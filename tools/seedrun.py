#!/usr/bin/env python3
"""Re-run the quick checks against every archived seeded change (seeded/<id>-<n>/patch.diff).

usage: tools/seedrun.py [-j N] [--verify] [names...]
Each change is applied to a scratch copy of /repo (src + tests) under /tmp, which is removed afterwards.
--verify also re-confirms the change (existing suite passes with it; demo exits 0 without / non-zero with it).
"""
import concurrent.futures as cf, json, os, shutil, subprocess, sys, tempfile

HERE = os.path.dirname(os.path.dirname(os.path.abspath(__file__)))


def run(name, verify):
    d = os.path.join(HERE, "seeded", name)
    meta = json.load(open(os.path.join(d, "meta.json")))
    work = tempfile.mkdtemp(prefix="vf-seed-")
    try:
        shutil.copytree("/repo/src", os.path.join(work, "src"), ignore=shutil.ignore_patterns("__pycache__", "*.egg-info"))
        shutil.copytree("/repo/tests", os.path.join(work, "tests"), ignore=shutil.ignore_patterns("__pycache__"))
        res = {}
        env = dict(os.environ, PYTHONPATH=os.path.join(work, "src"), PYTHONDONTWRITEBYTECODE="1")
        if verify:
            p = subprocess.run(["/venv/bin/python", os.path.join(d, "demo.py")], env=env, capture_output=True, cwd=work)
            res["demo_clean"] = p.returncode
        p = subprocess.run(["patch", "-p1", "-s", "-i", os.path.join(d, "patch.diff")], cwd=work, capture_output=True, text=True)
        if p.returncode != 0:
            return name, {"error": "patch does not apply: " + (p.stdout + p.stderr)[-300:]}
        if verify:
            p = subprocess.run(["/venv/bin/python", "-m", "pytest", "-q", "-p", "no:cacheprovider", "tests", "--ignore=tests/integration"], env=env, capture_output=True, text=True, cwd=work)
            res["suite"] = p.stdout.strip().splitlines()[-1] if p.stdout.strip() else "?"
            p = subprocess.run(["/venv/bin/python", os.path.join(d, "demo.py")], env=env, capture_output=True, cwd=work)
            res["demo_changed"] = p.returncode
        for c in meta["caught_by_quick_checks"] or [meta["breaks_property"]]:
            out = tempfile.mkdtemp(prefix="vf-seed-ev-")
            e2 = dict(os.environ, VERIF_REPO_SRC=os.path.join(work, "src"), VERIF_EVIDENCE_DIR=out, VERIF_PROCS=os.environ.get("SEED_PROCS", "4"))
            p = subprocess.run([os.path.join(HERE, "check"), c, "--tier", "quick", "--no-shrink"], env=e2, capture_output=True, text=True, cwd=HERE)
            keys = sorted({l.strip()[8:] for l in p.stdout.splitlines() if l.strip().startswith("bucket:")})
            res[c] = f"rc={p.returncode} " + "; ".join(keys)[:200]
            shutil.rmtree(out, ignore_errors=True)
        return name, res
    finally:
        shutil.rmtree(work, ignore_errors=True)


def main():
    args = sys.argv[1:]
    j = int(args[args.index("-j") + 1]) if "-j" in args else 4
    verify = "--verify" in args
    names = [a for a in args if a[0] == "C"] or sorted(os.listdir(os.path.join(HERE, "seeded")))
    missed = 0
    with cf.ThreadPoolExecutor(j) as ex:
        for name, res in ex.map(lambda n: run(n, verify), names):
            meta = json.load(open(os.path.join(HERE, "seeded", name, "meta.json")))
            # a change judged to lie outside the property's domain (see its note) must leave the check quiet
            want = "rc=0" if meta.get("outside_domain") else "rc=1"
            ok = all(v.startswith(want) for k, v in res.items() if k.startswith("C"))
            missed += not ok
            print(("CAUGHT " if ok else "MISSED ") + name, json.dumps(res), flush=True)
    print("missed:", missed)


main()
