"""atheris (libFuzzer) driver:  python -m vf.fuzz <Cxx> <part> <outdir> <corpusdir> [libFuzzer args]

Runs in its own process (libFuzzer exits the process at the end). The oracle is inside the
target; violations never crash the target (collect mode): they are bucketed and written to
<outdir>; statistics are flushed periodically because atexit handlers do not run.
"""

from __future__ import annotations

import json
import os
import sys
import time


def main() -> None:
    prop_id, part_name, outdir, corpus = sys.argv[1:5]
    fuzz_args = sys.argv[5:]
    import atheris

    with atheris.instrument_imports(include=["sansldap"]):
        import sansldap  # noqa: F401
        import sansldap.schema  # noqa: F401

    from vf import engine, jsonx

    prop = engine.load_property(prop_id)
    part = prop.part(part_name)
    ctx = engine.Ctx(part_name)
    state = {"n": 0, "t0": time.monotonic(), "buckets": {}, "counts": {}, "samples": [], "nt_samples": []}
    os.makedirs(os.path.join(outdir, "violations"), exist_ok=True)

    def flush() -> None:
        tmp = os.path.join(outdir, "stats.json.tmp")
        with open(tmp, "w") as fh:
            json.dump(
                {"evaluations": state["n"], "events": dict(ctx.events), "nt": [h.hex() for h in ctx.nt], "counts": state["counts"],
                 "samples": state["samples"], "nt_samples": state["nt_samples"], "wall": time.monotonic() - state["t0"]},
                fh,
            )
        os.replace(tmp, os.path.join(outdir, "stats.json"))

    def target(data: bytes) -> None:
        case = {"data": bytes(data)}
        state["n"] += 1
        ctx._case = case
        ctx._marked = False
        try:
            vs = part.check(case, ctx)
        except Exception as e:
            vs = engine._library_exception(e)
        if ctx._marked and len(state["nt_samples"]) < 3:
            state["nt_samples"].append(part.sample(case))
        elif not ctx._marked and len(state["samples"]) < 2:
            state["samples"].append(part.sample(case))
        for v in vs:
            state["counts"][v.key] = state["counts"].get(v.key, 0) + 1
            size = len(data)
            if v.key not in state["buckets"] or size < state["buckets"][v.key]:
                state["buckets"][v.key] = size
                with open(os.path.join(outdir, "violations", engine.slug(v.key) + ".json"), "w") as fh:
                    fh.write(jsonx.dumps({"key": v.key, "detail": v.detail, "case": case, "size": size}))
                flush()
        if state["n"] % 2000 == 0:
            flush()

    flush()
    atheris.Setup([sys.argv[0]] + fuzz_args + [corpus], target)
    atheris.Fuzz()


if __name__ == "__main__":
    main()
