"""C03 - encoded messages are RFC 4511 BER that an independent decoder reads back."""

from __future__ import annotations

import typing as t

from hypothesis import strategies as st

from .. import absval, gens, msgcheck, rfc4511
from ..engine import QUICK, THOROUGH, Ctx, Part, Property, Violation


def check_strict(m: t.Dict[str, t.Any], ctx: Ctx, x: t.Any = None) -> t.List[Violation]:
    kind = m["kind"]
    classes = msgcheck.message_classes(m)
    for c in classes:
        ctx.event(c)
    ctx.event(f"kind:{kind}")
    if msgcheck.is_nontrivial(classes):
        ctx.nontrivial(m)
    try:
        b = (x if x is not None else absval.to_lib(m)).pack(absval.default_options())
    except Exception as e:
        return [Violation(f"pack:{kind}:{msgcheck.exc_site(e)}", f"{m!r}: {e!r}")]
    try:
        m2, devs = rfc4511.decode(b)
    except rfc4511.DecodeError as e:
        return [Violation(f"undecodable={e.code} path={e.path}", f"{m!r} bytes {b[:200].hex()}: {e}")]
    out = []
    seen = set()
    for d in devs:
        key = f"deviation={d.code} path={d.path}"
        if key not in seen:
            seen.add(key)
            out.append(Violation(key, f"{m['kind']} bytes {b[:120].hex()}"))
    if m2 != m:
        diff = msgcheck.first_diff(m, m2)
        out.append(Violation(f"mismatch:{kind}:{msgcheck.diff_field(diff)}", f"first difference at {diff}: encoded {m!r} reference-decoded {m2!r}"))
    return out


class Messages(Part):
    name = "messages"
    examples = {QUICK: 1500, THOROUGH: 25000}

    def strategy(self, tier: str) -> t.Any:
        return st.one_of(gens.message(), gens.message(), gens.message(big=True))

    def check(self, case: t.Any, ctx: Ctx) -> t.List[Violation]:
        return check_strict(case, ctx)


class Twins(Part):
    """As C01's twins part, with the independent decoder as oracle (state surviving between pack calls)."""

    name = "twins"
    examples = {QUICK: 700, THOROUGH: 12000}

    def strategy(self, tier: str) -> t.Any:
        from .c01 import Twins as T

        return T().strategy(tier)

    def check(self, case: t.Any, ctx: Ctx) -> t.List[Violation]:
        from .c01 import check_twins

        return check_twins(case, ctx, lambda m, x=None: check_strict(m, ctx, x), unpack=False)


class Boundary(Part):
    name = "boundary-sweep"
    exhaustive = True

    def enumerate(self, tier: str, shard: int, nshards: int) -> t.Iterable[t.Any]:
        sizes = gens.BOUNDARY_SIZES + ([65535, 65536] if tier == QUICK else gens.BIG_SIZES + [2**16 + 300, 2**20])
        return (msgcheck.boundary_cases(sizes) + msgcheck.magic_cases())[shard::nshards]

    def check(self, case: t.Any, ctx: Ctx) -> t.List[Violation]:
        ctx.event(f"size:{case['size']}")
        return check_strict(case["m"], ctx)

    def sample(self, case: t.Any) -> t.Any:
        return {"field": case["field"], "size": case["size"]}


def _selftest(tier: str, seed: int) -> None:
    """decode(encode(a, knobs)) == a for generated values; strict deviations appear exactly when a knob that
    leaves the strict form was applied."""
    import hypothesis
    from hypothesis import given, settings, HealthCheck

    @hypothesis.seed(seed)
    @settings(max_examples=150, database=None, deadline=None, suppress_health_check=list(HealthCheck))
    @given(gens.message(), st.lists(st.integers(0, 255), max_size=120))
    def run(m: t.Any, tape: t.Any) -> None:
        m2, devs = rfc4511.decode(rfc4511.encode(m))
        assert m2 == m and not devs, (m, m2, devs)
        k = rfc4511.Knobs(tape)
        m3, devs3 = rfc4511.decode(rfc4511.encode(m, k))
        assert m3 == m, (m, m3)
        strictness_knobs = sum(v for kk, v in k.applied.items() if not kk.startswith("length"))
        assert bool(devs3) == bool(strictness_knobs), (k.applied, devs3)

    run()
    # a few hand-written RFC examples
    assert rfc4511.encode({"kind": "unbindRequest", "id": 3, "controls": []}) == bytes.fromhex("30050201034200")
    m = {"kind": "bindRequest", "id": 1, "controls": [], "version": 3, "name": "", "auth": ("simple", "")}
    assert rfc4511.encode(m) == bytes.fromhex("300c020101600702010304008000")


PROP = Property(
    id="C03",
    rule=(
        "Generated as C01. Oracle: a strict RFC 4511 / X.690 decoder written from the RFC's ASN.1 (vf/rfc4511.py: exact "
        "class/number/constructed bit of every element, definite lengths, primitive octet strings, TRUE=FF, minimal "
        "integers, defaults and absent optionals omitted, nothing after the last component, whole input consumed) must "
        "recover exactly the abstract message; every deviation is a violation keyed by (deviation code, ASN.1 path). "
        "Non-trivial rule as C01; distinct by abstract value."
    ),
    parts=[Messages(), Boundary(), Twins()],
    assumptions=[
        "the reference codec (self-tested every run: decode(encode(a, knobs)) == a) is the trusted base",
        "SIZE(1..MAX) constraints are not enforced (empty lists decode to empty lists)",
    ],
    selftest=_selftest,
    technique="property-based differential testing against an independent RFC 4511 reference decoder + exhaustive boundary / magic-value sweep + near-collision twins",
)
