"""C15 - the filter parser is total and only accepts what it can faithfully represent."""

from __future__ import annotations

import typing as t

from hypothesis import strategies as st

from .. import absval, gens, msgcheck, rfc4515
from ..engine import QUICK, THOROUGH, Ctx, Part, Property, Violation

EDIT_ALPHABET = list("()&|!=*\\:;~<>.- \n\r\t\x00\x7fa01é\udc80\udcff'\",\ud800\udc00\u0663\uff11\u00b2\u0301\u212b\u00df"
                     # the non-ASCII characters that match [a-z] / [A-Z] under re.IGNORECASE, a full-width letter, NEL, NBSP
                     "\u212a\u017f\u0130\u0131\uff21\x85\xa0\x1f")
_ALPHA = st.one_of(
    st.sampled_from(list("()&|!=*\\:;~<>.-")),
    st.sampled_from(list("()&|!=*\\:;~<>.- \n\r\t\x00\x7f")),
    st.sampled_from(list("abcdnDNxyz0123456789")),
    st.sampled_from(["\udc80", "\udcff", "\udcc3", "é", "€", "\U0001f600", "\ud800", "\udbff", "\udc00", "\udc7f", "\udfff"]),
    st.characters(),
    st.sampled_from(gens.NORMALISATION_CHARS),
    st.sampled_from(gens.BOUNDARY_CHARS),
)


def _attrs_and_rules(tree: t.Any) -> t.Iterator[t.Tuple[str, t.Any]]:
    stack = [tree]
    while stack:
        n = stack.pop()
        k = n[0]
        if k in ("and", "or"):
            stack.extend(n[1])
        elif k == "not":
            stack.append(n[1])
        elif k == "ext":
            if n[2] is not None:
                yield "attribute", n[2]
            if n[1] is not None:
                yield "rule", n[1]
        elif isinstance(k, str) and not k.startswith("!"):
            yield "attribute", n[1]


def check_text(text: str, ctx: Ctx, label: str = "") -> t.List[Violation]:
    import sansldap
    from sansldap._filter import FilterSyntaxError

    reaches = "=" in text
    try:
        f = sansldap.LDAPFilter.from_string(text)
    except FilterSyntaxError as e:
        ctx.event("outcome:syntax-error")
        if reaches:
            ctx.nontrivial(text)
        out = []
        try:
            try:
                total = len(e.filter.encode("utf-8", "surrogateescape"))
            except UnicodeEncodeError:
                # a lone surrogate that is not an escaped byte: there are no parser units; use the longest reading
                total = len(e.filter.encode("utf-8", "surrogatepass"))
            off, ln = e.offset, e.length
            if type(off) is not int or type(ln) is not int:
                out.append(Violation("error-span:not-int", f"{text!r}: offset {off!r} length {ln!r}"))
            elif off < 0 or ln < 0 or off + ln > total:
                what = "negative-length" if ln < 0 else "negative-offset" if off < 0 else "beyond-input"
                out.append(Violation(f"error-span:{what}", f"{text!r}: offset {off} length {ln} but the input has {total} units ({e})"))
        except Exception as e2:
            out.append(Violation(f"error-attributes:{type(e2).__name__}", f"{text!r}: {e2!r}"))
        if not isinstance(e, ValueError):
            out.append(Violation("error-is-not-a-ValueError", repr(e)))
        return out
    except BaseException as e:
        ctx.event("outcome:escaped")
        ctx.nontrivial(text)
        site = msgcheck.exc_site(e, innermost=True)
        return [Violation(f"escaped:{site}", f"from_string({text[:200]!r}{'...' if len(text) > 200 else ''}) raised {e!r}")]
    ctx.event("outcome:accepted")
    ctx.nontrivial(text)
    out = []
    try:
        tree = absval.filter_to_abstract(f)
    except RecursionError:
        ctx.event("projection-skipped:recursion-limit")
        return out
    if absval.has_marker(tree):
        out.append(Violation("accepted:ill-typed-result", f"{text!r} -> {tree!r}"))
        return out
    for what, v in _attrs_and_rules(tree):
        if not rfc4515.valid_attribute_description(v, allow_single_arc=True):
            out.append(Violation(f"accepted:invalid-{what}", f"{text!r} accepted with {what} {v!r}"))
            break
    try:
        again = absval.filter_to_abstract(sansldap.LDAPFilter.from_string(str(f)))
        if again != tree:
            d = msgcheck.first_diff(tree, again)
            out.append(Violation("accepted:text-form-does-not-parse-back", f"{text!r} -> {tree!r} -> {str(f)!r} -> {again!r} (first difference at {d})"))
    except RecursionError:
        ctx.event("reparse-skipped:recursion-limit")
    except Exception as e:
        out.append(Violation(f"accepted:text-form-rejected:{type(e).__name__}", f"{text!r} -> {str(f)!r}: {e!r}"))
    return out


class Texts(Part):
    name = "texts"
    examples = {QUICK: 1500, THOROUGH: 100000}

    def strategy(self, tier: str) -> t.Any:
        free = st.text(_ALPHA, max_size=24)
        shaped = st.tuples(st.sampled_from(["(", "", " (", "(&(", "(!(", "(|"]), st.text(_ALPHA, max_size=6),
                           st.sampled_from(["=", "=", ":=", "~=", ">=", "<=", ":dn:=", ":dn:1.2:=", ";x=", "\n=", ""]),
                           st.text(_ALPHA, max_size=8), st.sampled_from([")", "", "))", ")))", " )", ")("])).map("".join)
        return st.one_of(free, shaped, shaped)

    def check(self, case: t.Any, ctx: Ctx) -> t.List[Violation]:
        return check_text(case, ctx)

    def sample(self, case: t.Any) -> t.Any:
        return case[:200]


class Edits(Part):
    """Single-character edits (insert / delete / replace) of grammar sentences."""

    name = "edits"
    examples = {QUICK: 1500, THOROUGH: 60000}

    def strategy(self, tier: str) -> t.Any:
        return st.fixed_dictionaries(
            {
                "s": st.one_of(rfc4515.sentence(max_leaves=3, decorate=False), rfc4515.sentence(max_leaves=3)),
                "edits": st.lists(st.one_of(
                    st.tuples(st.sampled_from(["ins", "del", "rep"]), st.integers(0, 10**6), st.sampled_from(EDIT_ALPHABET)),
                    # a (possibly malformed) escape: backslash + two characters from a whitespace/hex/punctuation alphabet
                    st.tuples(st.just("ins"), st.integers(0, 10**6),
                              st.text(st.sampled_from(list(" \t\r\n\x0b\x0c0123456789abcdefABCDEFgG+-xX\x00*()\\")), min_size=2, max_size=2).map(lambda s: "\\" + s)),
                ), min_size=1, max_size=2),
            }
        )

    def check(self, case: t.Any, ctx: Ctx) -> t.List[Violation]:
        text = case["s"]["text"]
        for op, pos, ch in case["edits"]:
            if op == "ins":
                p = pos % (len(text) + 1)
                text = text[:p] + ch + text[p:]
            elif text:
                p = pos % len(text)
                text = text[:p] + (ch if op == "rep" else "") + text[p + 1 :]
            ctx.event(f"edit:{op}")
        return check_text(text, ctx)

    def sample(self, case: t.Any) -> t.Any:
        return {"sentence": case["s"]["text"][:120], "edits": [list(e) for e in case["edits"]]}


class Escapes(Part):
    """Items whose value components are built from literal characters, valid escapes and MALFORMED escapes
    (backslash + 0-2 characters from a whitespace / hex / punctuation alphabet), in every item shape - in particular
    as a whole component of a substring filter, where a wrongly accepted escape changes the shape of the result."""

    name = "escapes"
    examples = {QUICK: 600, THOROUGH: 20000}

    def strategy(self, tier: str) -> t.Any:
        odd = st.sampled_from(list(" \t\r\n\x0b\x0c\x000123456789abcdefABCDEFgGxX+-*()\\é\udc80"))
        atom = st.one_of(
            st.sampled_from(list("ab1 ")),
            st.sampled_from(["\\41", "\\2a", "\\2A", "\\00", "\\5c", "\\28"]),
            st.text(odd, min_size=2, max_size=2).map(lambda x: "\\" + x),
            st.text(odd, min_size=0, max_size=1).map(lambda x: "\\" + x),
            # escapes made of whitespace only / whitespace mixed with hex digits (lenient hex decoders skip blanks)
            st.text(st.sampled_from(list(" \t\r\x0b\x0c\n")), min_size=2, max_size=2).map(lambda x: "\\" + x),
            st.text(st.sampled_from(list(" \t0123456789abcdefABCDEF")), min_size=2, max_size=2).map(lambda x: "\\" + x),
            st.sampled_from(["\\0x", "\\+1", "\\-1", "\\1_", "\\_1", "\\٠٠", "\\４１", "\\a\udc80"]),
        )
        comp = st.one_of(atom, st.lists(atom, max_size=3).map("".join))
        value = st.one_of(comp, st.lists(comp, min_size=2, max_size=4).map("*".join))
        head = st.sampled_from(["cn=", "cn>=", "cn~=", "cn:=", "cn:dn:2.5.13.2:=", ":caseExactMatch:=", "o;lang-en="])
        item = st.tuples(head, value).map(lambda hv: "(" + hv[0] + hv[1] + ")")
        return st.one_of(item, item.map(lambda x: "(&" + x + "(a=b))"), item.map(lambda x: "(!" + x + ")"))

    def check(self, case: t.Any, ctx: Ctx) -> t.List[Violation]:
        return check_text(case, ctx)

    def sample(self, case: t.Any) -> t.Any:
        return case[:200]


class AllEdits(Part):
    """Every single-character edit of a fixed set of sentences with the 30-symbol edit alphabet (enumerated)."""

    name = "all-edits"
    exhaustive = True
    SENTENCES = [
        "(cn=a)", "(&(a=b)(c=d))", "(!(cn=x*y))", "(cn:dn:2.5.13.5:=v\\2a)", "(|(a>=1)(b<=2)(c~=3))", "(:1.2.3:=x)", "(a;x-1=*)",
        " ( & (a=b) ) ", "(o=a\\28b\\29)", "(1.2.840=é)",
    ]

    def enumerate(self, tier: str, shard: int, nshards: int) -> t.Iterable[t.Any]:
        k = 0
        sents = self.SENTENCES if tier == QUICK else self.SENTENCES + ["(&(|(a=b)(!(c=d)))(e:dn:=f))", "(cn=*a*b*)", "(cn=)", "(&(a=b))"]
        for s in sents:
            for p in range(len(s) + 1):
                for ch in EDIT_ALPHABET:
                    for op in ("ins", "rep"):
                        if op == "rep" and p >= len(s):
                            continue
                        if k % nshards == shard:
                            yield s[:p] + ch + (s[p:] if op == "ins" else s[p + 1 :])
                        k += 1
                if p < len(s):
                    if k % nshards == shard:
                        yield s[:p] + s[p + 1 :]
                    k += 1

    def check(self, case: t.Any, ctx: Ctx) -> t.List[Violation]:
        return check_text(case, ctx)


class Deep(Part):
    """Unbalanced and very deep inputs."""

    name = "deep"
    examples = {QUICK: 60, THOROUGH: 400}
    shards = {QUICK: 8, THOROUGH: 16}

    def strategy(self, tier: str) -> t.Any:
        sizes = st.sampled_from([0, 1, 2, 5, 50, 200, 330, 500, 1000, 3000, 20000])
        return st.fixed_dictionaries({"op": st.sampled_from(["!", "&", "|", "", " "]), "n": sizes, "m": st.one_of(st.none(), sizes),
                                      "core": st.sampled_from(["(a=b)", "a=b", "(a=b", "", "(", "a", "(a=*)"]),
                                      "space": st.sampled_from(["", " "])})

    def check(self, case: t.Any, ctx: Ctx) -> t.List[Violation]:
        n = case["n"]
        m = n if case["m"] is None else case["m"]
        text = ("(" + case["op"] + case["space"]) * n + case["core"] + (")" + case["space"]) * m
        ctx.event("balanced" if m == n else "unbalanced")
        ctx.event(f"depth>={330 if n >= 330 else 0}")
        return check_text(text, ctx)

    def sample(self, case: t.Any) -> t.Any:
        return case


class FuzzFromString(Part):
    """Coverage-guided campaign (atheris/libFuzzer) on LDAPFilter.from_string with the oracle in the target."""

    name = "atheris-from-string"
    fuzz = True
    shards = {QUICK: 0, THOROUGH: 16}
    fuzz_runs = {QUICK: 0, THOROUGH: 500000}
    fuzz_max_len = 256
    budget = {QUICK: 10.0, THOROUGH: 2400.0}

    def seed_corpus(self) -> t.List[bytes]:
        return [s.encode("utf-8", "surrogateescape") for s in AllEdits.SENTENCES + ["(&(|(a=b)(!(c=d)))(e:dn:=f))", "(cn=*a*b*)", "(cn=)"]]

    def check(self, case: t.Any, ctx: Ctx) -> t.List[Violation]:
        return check_text(case["data"].decode("utf-8", "surrogateescape"), ctx)

    def sample(self, case: t.Any) -> t.Any:
        return case["data"][:120].decode("utf-8", "surrogateescape")


def _selftest(tier: str, seed: int) -> None:
    V = rfc4515.valid_attribute_description
    for good in ["cn", "objectClass", "a-b", "cn;lang-en", "cn;x;y-1", "2.5.4.3", "1.2;binary", "0.0", "a0"]:
        assert V(good), good
    assert V("0", allow_single_arc=True) and V("0;option", allow_single_arc=True) and not V("0")
    for bad in ["", "cn\n", "-a", "1a", "01.2", "1..2", "1.", ".1", "cn;", "cn;;x", "cn;a b", "c n", "cn\x00", "é", "1.02", "cn:dn"]:
        assert not V(bad, allow_single_arc=True), bad


PROP = Property(
    id="C15",
    rule=(
        "Generated: (i) arbitrary text over an alphabet biased to ( ) & | ! = * \\ : ; ~ < > . -, digits, letters, space, "
        "\\n \\r \\t NUL DEL, non-ASCII and the lone surrogates U+DC80-U+DCFF the library uses for raw bytes, free-form "
        "and filter-shaped; (ii) 1-2 single-character edits (insert/delete/replace, 30-symbol alphabet) of grammar "
        "sentences (incl. inserted well- and ill-formed escapes), and ALL single edits of 10 (thorough: 14) fixed sentences; items whose value "
        "components mix literals, valid escapes and malformed escapes (backslash + 0-2 odd characters) in every item shape; (iii) unbalanced and deep inputs "
        "'(op' * n + core + ')' * m for n, m up to 20000. Oracle: the outcome is a filter or FilterSyntaxError (a "
        "ValueError) with 0 <= offset, 0 <= length, offset+length <= len(e.filter in UTF-8/surrogateescape units); on "
        "acceptance every attribute description and matching rule passes an independent RFC 4512 scanner (single-arc "
        "OIDs tolerated: pinned by test_attribute_parsing) and from_string(str(result)) projects to the same tree. "
        "Non-trivial = input contains '=' (reaches the item parser) or is accepted or escapes; distinct by text."
    ),
    parts=[Texts(), Edits(), Escapes(), AllEdits(), Deep(), FuzzFromString()],
    assumptions=["offsets are judged in the units the parser works in (most permissive reading of 'inside the input')"],
    selftest=_selftest,
    technique="property-based fuzzing of the text parser (random text, grammar-sentence edits, deep nesting) + exhaustive single-edit enumeration",
)
