"""C10 - rejected calls have no wire effect; servers answer only open requests."""

from __future__ import annotations

import typing as t

from .. import history
from ..engine import Property
from ._hist import HistoryPart

CLAUSES = {"refused-bytes", "refusal-type", "call-accept", "open-set", "emitted"}


class Server(HistoryPart):
    name = "server"
    side = "server"
    clauses = CLAUSES | {"state"}

    def nontrivial(self, tr: history.Trace) -> bool:
        return tr.refused_calls > 0


class Client(HistoryPart):
    name = "client"
    side = "client"
    clauses = CLAUSES | {"state"}

    def nontrivial(self, tr: history.Trace) -> bool:
        return tr.refused_calls > 0


class _Pending(HistoryPart):
    """The same histories with generated (partial) drain steps; the outgoing stream is observed on clones before and
    after every step, so refused calls are checked while bytes are pending / partially drained."""

    pending = True
    clauses = CLAUSES | {"state"}
    examples = {"quick": 250, "thorough": 8000}

    def strategy(self, tier: str) -> t.Any:
        from .. import gens

        n = self.steps[tier]
        if self.side == "client":
            return gens.memo(f"hist.client.drains.{n}", lambda: history.client_steps(n, drains=True))
        return gens.memo(f"hist.server.drains.{n}", lambda: history.server_steps(n, drains=True))

    def nontrivial(self, tr: history.Trace) -> bool:
        return any(e.startswith("call-with-bytes-pending:refused") for e in tr.events)


class ServerPending(_Pending):
    name = "server-pending"
    side = "server"


class ClientPending(_Pending):
    name = "client-pending"
    side = "client"


PROP = Property(
    id="C10",
    rule=(
        "Generated: server- and client-centred histories as in C08 (every response kind x id class {open, open search, "
        "open non-search, completed, never received, 0} x state x result code). The outgoing stream is drained after "
        "every step so bytes are attributed to calls; two further parts keep bytes pending (generated partial drains) and "
        "observe the stream on clones before and after every step. Oracle (reference model in lock step): a call that raises must "
        "raise LDAPError, leave the drain empty, the state unchanged (NEW->OPEN tolerated) and the set of operations in "
        "progress unchanged (clone probes); a call the model refuses must not succeed (response to a retired or unknown "
        "request, second final response) and a call it accepts must not be refused; bytes emitted by an accepted call "
        "frame into exactly one PDU that reference-decodes to the message asked for. Non-trivial = history with >=1 "
        "refused call; distinct by step list."
    ),
    parts=[Server(), Client(), ServerPending(), ClientPending()],
    assumptions=["as C08"],
    technique="model-based (stateful) property testing with per-call byte attribution and clone probes",
)
