"""C12 - outgoing bytes are delivered exactly once, in order, however they are drained."""

from __future__ import annotations

import typing as t

from hypothesis import strategies as st

from .. import ber, gens, history, rfc4511, sess
from ..engine import QUICK, THOROUGH, Ctx, Part, Property, Violation


class Drains(Part):
    side = "client"
    examples = {QUICK: 400, THOROUGH: 20000}

    def strategy(self, tier: str) -> t.Any:
        n = 30 if tier == QUICK else 60
        if self.side == "client":
            return gens.memo(f"c12.client.{n}", lambda: history.client_steps(n, drains=True))
        return gens.memo(f"c12.server.{n}", lambda: history.server_steps(n, drains=True))

    def check(self, case: t.Any, ctx: Ctx) -> t.List[Violation]:
        side = self.side
        steps = case
        # twin: fully drained after every step => per-call encodings E_i
        twin = history.run_plain(side, steps, full_drain=True)
        cum = []
        total = 0
        for e in twin:
            total += len(e.emitted)
            cum.append(total)
        expected = b"".join(e.emitted for e in twin)
        drained_so_far = [0]

        def pending(i: int) -> int:
            return (cum[i - 1] if i > 0 else 0) - drained_so_far[0]

        # session under test: generated drain schedule
        s = sess.new(side)
        mdl = history.model.Model(side)
        got = bytearray()
        out: t.List[Violation] = []
        partial_then_send = False
        partial_open = False
        n_partial = 0
        for i, step in enumerate(steps):
            if step["op"] == "drain":
                amount = step["amount"]
                pend = pending(i)
                if isinstance(amount, tuple):
                    amount = max(0, pend + amount[1])
                try:
                    d = s.data_to_send(amount)
                except BaseException as e:
                    return [Violation(f"{side}:drain-raised-{type(e).__name__}", f"step {i} amount {amount!r}: {e!r}")]
                if type(d) is not bytes:
                    out.append(Violation(f"{side}:drain-returned-{type(d).__name__}", f"step {i}"))
                    d = bytes(d)
                want = pend if amount is None else min(amount, pend)
                if len(d) != want:
                    out.append(Violation(f"{side}:drain-length", f"step {i}: amount {amount!r} with {pend} bytes pending returned {len(d)} bytes (expected {want})"))
                    break
                if amount is not None and 0 < amount < pend:
                    partial_open = True
                    n_partial += 1
                    ctx.event("partial-drain")
                elif amount is None or amount >= pend:
                    partial_open = False
                    ctx.event("full-drain" if pend else "drain-of-nothing")
                else:
                    ctx.event("zero-drain")
                got.extend(d)
                drained_so_far[0] += len(d)
                tw = twin[i]
                if sess.state(s) != tw.state:
                    out.append(Violation(f"{side}:drain-changed-state", f"step {i}: state {sess.state(s)}, twin {tw.state}"))
                    break
                continue
            e = history.run_plain(side, [step], full_drain=False, session=s, mdl=mdl)[0]
            tw = twin[i]
            if e.kind == "call" and e.ok and partial_open:
                partial_then_send = True
            if (e.kind, e.ok, e.exc, e.value, e.state) != (tw.kind, tw.ok, tw.exc, tw.value, tw.state):
                out.append(Violation(f"{side}:behaviour-depends-on-draining", f"step {i} {step!r}: drained-by-schedule run {e[:5]!r}, fully drained twin {tw[:5]!r}"))
                break
        if not out:
            try:
                rest = s.data_to_send()
            except BaseException as e:
                return [Violation(f"{side}:drain-raised-{type(e).__name__}", f"final drain: {e!r}")]
            got.extend(rest)
            if bytes(got) != expected:
                if len(got) < len(expected):
                    what = "bytes-dropped"
                elif len(got) > len(expected):
                    what = "bytes-repeated"
                else:
                    what = "bytes-altered-or-reordered"
                # first difference
                k = next((j for j in range(min(len(got), len(expected))) if got[j] != expected[j]), min(len(got), len(expected)))
                out.append(Violation(f"{side}:{what}", f"drained {len(got)} bytes, expected {len(expected)}; first difference at offset {k}: got {bytes(got[k:k+24]).hex()} expected {expected[k:k+24].hex()}"))
            if s.data_to_send() != b"" or s.data_to_send(5) != b"":
                out.append(Violation(f"{side}:drain-after-empty-returned-bytes", "stream not empty after a full drain"))
        # independent framing of the twin's stream: one PDU per accepted call
        accepted = sum(1 for e in twin if e.kind == "call" and e.ok)
        units, tail, hard = ber.frame(expected)
        if hard is not None or tail or len(units) != accepted:
            out.append(Violation(f"{side}:stream-is-not-one-pdu-per-accepted-call", f"{accepted} accepted calls, {len(units)} units, tail={tail}"))
        ctx.event("accepted-calls", accepted)
        if partial_then_send:
            ctx.nontrivial(repr(case))
            ctx.event("history:partial-drain-then-send")
        return out

    def sample(self, case: t.Any) -> t.Any:
        from .. import jsonx

        return {"side": self.side, "steps": jsonx.brief(case[:14]), "n_steps": len(case)}


class Client(Drains):
    name = "client"
    side = "client"


class Server(Drains):
    name = "server"
    side = "server"


PROP = Property(
    id="C12",
    rule=(
        "Generated: histories of send calls (accepted and refused; requests on a client, responses/unbind on a server "
        "with the deliveries that make them possible) interleaved with data_to_send(amount) for amount in {None, 0, 1, "
        "small, pending-3..pending+3, huge}. Oracle: twin-run metamorphic relation - the same history on a twin that is "
        "fully drained after every step yields the per-call encodings E_i; the concatenation of all drains must equal "
        "E_1||E_2||... of the accepted calls, every drain returns exactly min(amount, pending) bytes, results/errors/"
        "states of all steps are identical in both runs, and the stream frames (independent framer) into exactly one "
        "PDU per accepted call. Non-trivial = >=1 partial drain (0 < amount < pending) followed by another accepted "
        "send before the rest is drained; distinct by step list."
    ),
    parts=[Client(), Server()],
    assumptions=["amounts are None or >= 0, as documented"],
    technique="stateful property testing with a twin-run metamorphic oracle and independent framing",
)
