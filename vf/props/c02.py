"""C02 - message reassembly is independent of how the byte stream is chunked; returned messages are self-contained."""

from __future__ import annotations

import typing as t

from hypothesis import strategies as st

from .. import absval, ber, gens, msgcheck, rfc4511, sess
from ..engine import QUICK, THOROUGH, Ctx, Part, Property, Violation

# ---------------------------------------------------------------------------------------- generation

_NOTICE = rfc4511.OID_NOTICE_OF_DISCONNECTION


def _small_filter() -> t.Any:
    return gens.filters(max_leaves=4)


@st.composite
def server_case(draw: t.Any) -> t.Dict[str, t.Any]:
    ids = draw(gens.memo("c02.ids", lambda: st.lists(gens.msg_ids(), min_size=1, max_size=8, unique=True)))
    n = len(ids)
    msgs = []
    for i, mid in enumerate(ids):
        if i == 0:
            strat = gens.memo("c02.server.first", lambda: gens.message(kinds=["searchRequest", "extendedReq", "bindRequest"], filt=_small_filter(), ids=st.just(0)))
        else:
            strat = gens.memo("c02.server.next", lambda: gens.message(kinds=["searchRequest", "extendedReq"], filt=_small_filter(), ids=st.just(0)))
        msgs.append(dict(draw(strat), id=mid))
    return {"side": "server", "prep": [], "msgs": msgs}


@st.composite
def client_case(draw: t.Any) -> t.Dict[str, t.Any]:
    if draw(st.integers(0, 5)) == 0:
        prep = [("bind", draw(st.sampled_from(["simple", "sasl"])))]
    else:
        prep = draw(st.lists(st.sampled_from([("search",), ("search",), ("extended",)]), min_size=1, max_size=5))
    msgs: t.List[t.Any] = []
    done: t.Set[int] = set()
    n = draw(st.integers(1, 8))
    for _ in range(n):
        live = [i for i in range(len(prep)) if i not in done]
        if not live:
            break
        rid = draw(st.sampled_from(live))
        op = prep[rid][0]
        if op == "search":
            kind = draw(st.sampled_from(["searchResEntry", "searchResEntry", "searchResRef", "searchResDone"]))
        elif op == "extended":
            kind = "extendedResp"
        else:
            kind = "bindResponse"
        m = draw(gens.memo("c02.client." + kind, lambda: gens.message(kinds=[kind], ids=st.just(0))))
        if kind == "extendedResp" and m["name"] == _NOTICE:
            m = dict(m, name=None)
        m = dict(m)
        m["rid"] = rid
        if kind != "searchResEntry" and kind != "searchResRef":
            done.add(rid)
        msgs.append(m)
    return {"side": "client", "prep": prep, "msgs": msgs}


@st.composite
def stream_case(draw: t.Any) -> t.Dict[str, t.Any]:
    case = draw(st.one_of(server_case(), client_case()))
    n = len(case["msgs"])
    # per message: the library's encoder, the reference encoder, or the reference encoder with generated length forms
    enc = st.one_of(st.booleans(), st.booleans(), st.tuples(st.just("forms"), st.lists(st.integers(0, 255), min_size=4, max_size=16)))
    case["libenc"] = draw(st.lists(enc, min_size=n, max_size=n))
    # cuts are drawn as fractions of the (not yet known) stream length plus the extreme schedules
    mode = draw(st.sampled_from(["one", "bytes", "cuts", "cuts", "cuts", "cuts"]))
    case["mode"] = mode
    case["cuts"] = (
        draw(st.lists(st.integers(0, 10**6), min_size=1, max_size=14)) if mode == "cuts" else []
    )
    case["dup"] = draw(st.lists(st.integers(0, 13), max_size=3))  # indexes of cuts to duplicate => empty chunks
    case["containers"] = draw(st.lists(st.sampled_from([0, 1, 2]), min_size=1, max_size=6))
    return case


# ---------------------------------------------------------------------------------------- execution


def build(case: t.Dict[str, t.Any]) -> t.Tuple[t.Callable[[], t.Any], t.List[t.Dict[str, t.Any]], bytes, t.List[int]]:
    """-> (factory of identically prepared sessions, expected abstract messages, stream, candidate ids)"""
    side = case["side"]

    def factory() -> t.Tuple[t.Any, t.List[int]]:
        s = sess.new(side)
        ids = [sess.client_request(s, op) for op in case["prep"]]
        s.data_to_send()
        return s, ids

    _, ids = factory()
    msgs = []
    for m in case["msgs"]:
        m = dict(m)
        rid = m.pop("rid", None)
        if rid is not None:
            m["id"] = ids[rid]
        msgs.append(m)
    opts = absval.default_options()
    parts = []
    for m, libenc in zip(msgs, case["libenc"]):
        if isinstance(libenc, tuple):
            parts.append(rfc4511.encode(m, rfc4511.Knobs(libenc[1], kinds=("length-wide",))))
        else:
            parts.append(absval.to_lib(m).pack(opts) if libenc else rfc4511.encode(m))
    cand = sorted({m["id"] for m in msgs} | set(ids))
    if len(cand) > 48:
        # each probe clones the session (cost proportional to the operations in progress): long runs are sampled -
        # the first, the last and evenly spaced ids in between
        step = len(cand) // 24
        cand = sorted(set(cand[:8] + cand[-8:] + cand[::step]))
    return (lambda: factory()[0]), msgs, b"".join(parts), cand


def cuts_for(case: t.Dict[str, t.Any], n: int) -> t.List[int]:
    if case["mode"] == "one" or n == 0:
        return []
    if case["mode"] == "bytes":
        if n > 400:  # byte-wise delivery re-parses the buffer on every call: keep long streams affordable
            step = n // 80 + 1
            return list(range(1, n, step))
        return list(range(1, n))
    cuts = sorted(c % (n + 1) for c in case["cuts"])
    for d in case["dup"]:
        if cuts:
            cuts.append(cuts[d % len(cuts)])
    return sorted(cuts)


def wrap(chunk: bytes, kind: int) -> t.Tuple[t.Any, t.Any]:
    """-> (object handed to receive, mutable backing store to scribble over afterwards or None)"""
    if kind == 0:
        return chunk, None
    ba = bytearray(chunk)
    if kind == 1:
        return ba, ba
    return memoryview(ba), ba


def classify_cuts(stream: bytes, cuts: t.List[int]) -> t.Set[str]:
    units, _tail, _err = ber.frame(stream)
    cls: t.Set[str] = set()
    hdr_inside = set()
    starts = set()
    for s, e in units:
        _c, _k, _n, hl, _l, _t, _lo = ber.read_header(stream, s)
        for p in range(s + 1, s + hl):
            hdr_inside.add(p)
        starts.add(s)
    for c in cuts:
        if c in hdr_inside:
            cls.add("cut-inside-header")
    bounds = [0] + list(cuts) + [len(stream)]
    chunks = [(bounds[i], bounds[i + 1]) for i in range(len(bounds) - 1)]
    if cuts:
        for a, b in chunks:
            for _s, e in units:
                if e < len(stream) and a < e < b:
                    cls.add("chunk-spans-boundary")
    for i in range(1, len(chunks) - 1):
        if chunks[i][0] == chunks[i][1] and 0 < chunks[i][0] < len(stream) and chunks[i][0] not in starts:
            cls.add("empty-chunk-between-partials")
    return cls


def run_delivery(
    make: t.Callable[[], t.Any], stream: bytes, cuts: t.List[int], containers: t.List[int], scribble: bool
) -> t.Tuple[t.Any, t.List[t.Any], t.Optional[BaseException]]:
    s = make()
    got: t.List[t.Any] = []
    chunks = gens.apply_cuts(stream, cuts)
    for i, ch in enumerate(chunks):
        obj, back = wrap(ch, containers[i % len(containers)] if scribble else 0)
        try:
            got.extend(s.receive(obj))
        except BaseException as e:  # reported by the caller
            return s, got, e
        if back is not None:
            back[:] = b"\xaa" * len(back)
    return s, got, None


def check_case(case: t.Dict[str, t.Any], ctx: Ctx, cuts: t.Optional[t.List[int]] = None) -> t.List[Violation]:
    side = case["side"]
    make, msgs, stream, cand = build(case)
    if cuts is None:
        cuts = cuts_for(case, len(stream))
    cls = classify_cuts(stream, cuts)
    for c in cls:
        ctx.event(c)
    ctx.event(f"side:{side}")
    ctx.event(f"mode:{case.get('mode', 'enum')}")
    if cls & {"cut-inside-header", "chunk-spans-boundary", "empty-chunk-between-partials"}:
        ctx.nontrivial((stream, tuple(cuts)))
    out: t.List[Violation] = []

    s1, r1, e1 = run_delivery(make, stream, [], [0], False)
    if e1 is not None:
        return [Violation(f"{side}:single-delivery:{msgcheck.exc_site(e1)}", f"{msgs!r}: {e1!r}")]
    a1 = [absval.to_abstract(m, decoded=True) for m in r1]
    if a1 != msgs:
        d = msgcheck.first_diff(msgs, a1)
        out.append(Violation(f"{side}:single-delivery:messages-differ", f"first difference at {d}: sent {msgs!r} got {a1!r}"))
        return out

    sn, rn, en = run_delivery(make, stream, cuts, case.get("containers", [1, 2, 0]), True)
    if en is not None:
        out.append(Violation(f"{side}:chunked:{msgcheck.exc_site(en)}", f"cuts {cuts} stream {stream[:120].hex()}: {en!r}"))
        return out
    an = [absval.to_abstract(m, decoded=True) for m in rn]
    if an != msgs:
        if len(an) != len(msgs):
            what = "lost" if len(an) < len(msgs) else "duplicated"
            out.append(Violation(f"{side}:chunked:{what}", f"cuts {cuts} stream {stream[:200].hex()}: sent {len(msgs)} got {len(an)}"))
        else:
            d = msgcheck.first_diff(msgs, an)
            marker = "altered"
            if absval.has_marker(an):
                marker = "not-self-contained-type"
            out.append(Violation(f"{side}:chunked:{marker}", f"cuts {cuts}: first difference at {d}: sent {msgs!r} got {an!r}"))
    st1, stn = sess.state(s1), sess.state(sn)
    if st1 != stn:
        out.append(Violation(f"{side}:state-differs", f"single {st1} chunked {stn} cuts {cuts}"))
    p1 = sess.in_progress_set(s1, side, cand)
    pn = sess.in_progress_set(sn, side, cand)
    if p1 != pn:
        out.append(Violation(f"{side}:in-progress-differs", f"single {p1} chunked {pn} cuts {cuts}"))
    # leftover bytes: a following message must be handled identically
    extra = rfc4511.encode({"kind": "searchResEntry" if side == "client" else "extendedReq", "id": 2**20 + 7, "controls": [],
                            **({"name": "", "attributes": []} if side == "client" else {"name": "1.1", "value": None})})
    outs = []
    for s in (s1, sn):
        try:
            r = s.receive(extra)
            outs.append(("ok", [absval.to_abstract(m) for m in r]))
        except BaseException as e:
            outs.append(("exc", type(e).__name__))
    if outs[0] != outs[1]:
        out.append(Violation(f"{side}:residue-differs", f"after stream, next message: single {outs[0]!r} chunked {outs[1]!r} cuts {cuts}"))
    return out


class Streams(Part):
    name = "streams"
    examples = {QUICK: 700, THOROUGH: 10000}

    def strategy(self, tier: str) -> t.Any:
        return stream_case()

    def check(self, case: t.Any, ctx: Ctx) -> t.List[Violation]:
        return check_case(case, ctx)

    def sample(self, case: t.Any) -> t.Any:
        _make, msgs, stream, _ = build(case)
        return {"side": case["side"], "prep": case["prep"], "kinds": [m["kind"] for m in msgs], "stream_len": len(stream),
                "cuts": cuts_for(case, len(stream))[:40], "containers": case["containers"]}


_ENUM_CASES: t.List[t.Dict[str, t.Any]] = [
    {
        "side": "server", "prep": [],
        "msgs": [
            {"kind": "extendedReq", "id": 1, "controls": [], "name": "1.3", "value": b"v"},
            {"kind": "searchRequest", "id": 300, "controls": [], "base": "", "scope": 0, "deref": 0, "size": 0, "time": 0,
             "typesOnly": True, "filter": ("present", "a"), "attributes": []},
        ],
    },
    {
        "side": "server", "prep": [],
        "msgs": [
            {"kind": "bindRequest", "id": 1, "controls": [], "version": 3, "name": "", "auth": ("sasl", "X", None)},
            {"kind": "extendedReq", "id": 2, "controls": [("showDeleted", True)], "name": "", "value": None},
        ],
    },
    {
        "side": "client", "prep": [("search",)],
        "msgs": [
            {"kind": "searchResEntry", "rid": 0, "id": 0, "controls": [], "name": "cn", "attributes": [("a", [b"v"])]},
            {"kind": "searchResDone", "rid": 0, "id": 0, "controls": [],
             "result": {"code": 0, "matched": "", "diag": "", "referral": None}},
        ],
    },
    {
        "side": "client", "prep": [("extended",), ("search",)],
        "msgs": [
            {"kind": "searchResRef", "rid": 1, "id": 0, "controls": [], "uris": ["l"]},
            {"kind": "extendedResp", "rid": 0, "id": 0, "controls": [],
             "result": {"code": 80, "matched": "", "diag": "", "referral": None}, "name": None, "value": b""},
            {"kind": "searchResDone", "rid": 1, "id": 0, "controls": [],
             "result": {"code": 4, "matched": "", "diag": "x", "referral": None}},
        ],
    },
    {
        "side": "client", "prep": [("bind", "sasl")],
        "msgs": [
            {"kind": "bindResponse", "rid": 0, "id": 0, "controls": [],
             "result": {"code": 14, "matched": "", "diag": "", "referral": None}, "sasl": b"tok"},
        ],
    },
]


class AllCuts(Part):
    """Every single cut and every pair of cuts of a few short streams (finite, enumerated completely)."""

    name = "all-cuts"
    exhaustive = True

    def enumerate(self, tier: str, shard: int, nshards: int) -> t.Iterable[t.Any]:
        k = 0
        for ci, base in enumerate(_ENUM_CASES):
            for libenc in (False, True):
                case = dict(base, libenc=[libenc] * len(base["msgs"]), mode="enum", containers=[1, 2, 0])
                _m, _msgs, stream, _c = build(case)
                n = len(stream)
                for i in range(0, n + 1):
                    for j in range(i, n + 1):
                        if k % nshards == shard:
                            yield {"ci": ci, "libenc": libenc, "cuts": [i, j]}
                        k += 1
                if tier == THOROUGH and not libenc and n <= 64:
                    # every triple of cuts as well
                    for i in range(0, n + 1):
                        for j in range(i, n + 1):
                            for l in range(j, n + 1):
                                if k % nshards == shard:
                                    yield {"ci": ci, "libenc": libenc, "cuts": [i, j, l]}
                                k += 1

    def check(self, case: t.Any, ctx: Ctx) -> t.List[Violation]:
        base = _ENUM_CASES[case["ci"]]
        full = dict(base, libenc=[case["libenc"]] * len(base["msgs"]), mode="enum", containers=[1, 2, 0])
        return check_case(full, ctx, cuts=list(case["cuts"]))


class Bulk(Part):
    """Very large messages and very long runs of messages (finite list, enumerated): limits hidden in the buffering
    (bytes pending, messages per call) make the outcome depend on the chunking."""

    name = "bulk"
    exhaustive = True
    shards = {QUICK: 8, THOROUGH: 16}

    def enumerate(self, tier: str, shard: int, nshards: int) -> t.Iterable[t.Any]:
        k = 0
        sizes = [2**16 + 1, 2**18 + 9, 2**20 + 5] + ([2**22 + 3, 2**24 + 1] if tier == THOROUGH else [])
        runs = [513, 1025, 5000] + ([70000] if tier == THOROUGH else [])
        for side in ("server", "client"):
            for size in sizes:
                for frac in (0.001, 0.3, 0.6, 0.999):
                    if k % nshards == shard:
                        yield {"side": side, "what": "large", "n": size, "cuts": [int(size * frac) + 11]}
                    k += 1
                if k % nshards == shard:
                    yield {"side": side, "what": "large", "n": size, "cuts": [7, size // 2, size // 2, size - 3, size + 20]}
                k += 1
            for n in runs:
                for cuts in ([], [n * 3], [5, n * 5 + 2], [n * 4 + 1, n * 4 + 2, n * 8]):
                    if k % nshards == shard:
                        yield {"side": side, "what": "run", "n": n, "cuts": cuts}
                    k += 1

    def _case(self, c: t.Any) -> t.Dict[str, t.Any]:
        if c["side"] == "server":
            big = {"kind": "extendedReq", "id": 1, "controls": [], "name": "1.2.3", "value": b"\x5a" * c["n"]}
            small = {"kind": "extendedReq", "id": 2, "controls": [], "name": "1.2", "value": None}
            prep: t.List[t.Any] = []
        else:
            big = {"kind": "searchResEntry", "rid": 0, "id": 0, "controls": [], "name": "cn=big", "attributes": [("jpegPhoto", [b"\x5a" * c["n"]])]}
            small = {"kind": "searchResEntry", "rid": 0, "id": 0, "controls": [], "name": "cn=e", "attributes": []}
            prep = [("search",)]
        if c["what"] == "large":
            msgs = [small, big, small]
        else:
            msgs = [dict(small, id=(i + 10)) if c["side"] == "server" else small for i in range(c["n"])]
        return {"side": c["side"], "prep": prep, "msgs": msgs, "libenc": [False] * len(msgs), "mode": "enum", "containers": [1, 2, 0]}

    def check(self, c: t.Any, ctx: Ctx) -> t.List[Violation]:
        ctx.event(f"bulk:{c['what']}")
        out = check_case(self._case(c), ctx, cuts=sorted(c["cuts"]))
        if not ctx._marked:
            ctx.nontrivial((c["side"], c["what"], c["n"], tuple(c["cuts"])))
        return out

    def sample(self, c: t.Any) -> t.Any:
        return c


def _selftest(tier: str, seed: int) -> None:
    # framing reference agrees with the full reader on a couple of generated streams
    a = rfc4511.encode(_ENUM_CASES[0]["msgs"][0]) + rfc4511.encode(_ENUM_CASES[0]["msgs"][1])
    units, tail, err = ber.frame(a)
    assert len(units) == 2 and not tail and err is None
    assert [ber.read(a, s)[1] for s, _ in units] == [e - s for s, e in units]
    units, tail, err = ber.frame(a[:-1])
    assert len(units) == 1 and tail


PROP = Property(
    id="C02",
    rule=(
        "Generated: a receiving side (server: 1-8 requests with distinct ids, a bind only first; client: requests are "
        "issued through the API, then responses for ids still in progress - entries/references/done for searches, one "
        "final response otherwise), each message encoded by the reference encoder or the library, and a chunking (cut "
        "list with duplicates = empty chunks, one delivery, byte-at-a-time) with each chunk handed over as bytes / "
        "bytearray / memoryview and overwritten with 0xAA right after receive returns; plus ALL one- and two-cut "
        "chunkings (thorough: also all three-cut chunkings) of five short streams, and a list of bulk cases (messages of 64 KiB.."
        "1 MiB, thorough 16 MiB; runs of 513..5000, thorough 70000, messages) with cuts at chosen places. Oracle: chunked delivery returns exactly the generated messages in order "
        "(projection equality, exact types => no views into the caller's buffer), no exception, same final state, same "
        "in-progress set (clone probes) and same handling of a following message as a single delivery. Non-trivial = a "
        "cut strictly inside a PDU's identifier/length octets, a chunk spanning a PDU boundary, or an empty chunk "
        "between two partial chunks; distinct by (stream, cuts)."
    ),
    parts=[Streams(), AllCuts(), Bulk()],
    assumptions=[
        "only error-free sequences (no unbind / notice of disconnection / protocol violation): a ProtocolError discards what was decoded in the same call",
        "requests delivered to a server carry distinct ids",
    ],
    selftest=_selftest,
    technique="property-based metamorphic testing (chunked vs single delivery) + exhaustive enumeration of 1- and 2-cut chunkings",
)
