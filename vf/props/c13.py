"""C13 - filter objects survive conversion to text and back (no filter injection)."""

from __future__ import annotations

import typing as t

from hypothesis import strategies as st

from .. import absval, gens, msgcheck, rfc4515, twins
from ..engine import QUICK, THOROUGH, Ctx, Part, Property, Violation

_SPECIAL = set(b"()*\\\x00")


def _values() -> t.Any:
    special = st.lists(
        st.one_of(st.sampled_from(list(b"()*\\\x00")), st.sampled_from(list(b"()*\\\x00 =:~<>!&|\x7f\x80\xff\xc3\xa9")), st.integers(0, 255),
                  st.sampled_from(list(b"abcXYZ019"))),
        max_size=10,
    ).map(bytes)
    return st.one_of(special, special, gens.small_octets(16), st.text(max_size=6).map(lambda s: s.encode("utf-8")),
                     st.lists(st.sampled_from(gens.NORMALISATION_SENSITIVE + ["\\2a", "\\5c", "\\29", "a\\28", "*", " ", " x", "x "]), min_size=1, max_size=3).map(lambda l: "".join(l).encode("utf-8")))


def _filters(max_leaves: int) -> t.Any:
    return gens.filters(attrs=gens.attr_desc(), values=_values(), rules=gens.matching_rule(), rfc_text_domain=True, max_leaves=max_leaves)


def _values_of(f: t.Any) -> t.Iterator[t.Tuple[str, bytes]]:
    k = f[0]
    if k in ("and", "or"):
        for c in f[1]:
            yield from _values_of(c)
    elif k == "not":
        yield from _values_of(f[1])
    elif k in ("eq", "ge", "le", "approx"):
        yield k, f[2]
    elif k == "sub":
        if f[2] is not None:
            yield "sub-edge", f[2]
        for a in f[3]:
            yield "sub-edge", a
        if f[4] is not None:
            yield "sub-edge", f[4]
    elif k == "ext":
        yield k, f[3]


def check_tree(tree: t.Any, ctx: Ctx) -> t.List[Violation]:
    import sansldap

    depth = gens.filter_depth(tree)
    nt = depth >= 2
    for where, v in _values_of(tree):
        if any(b in _SPECIAL or b >= 0x80 for b in v):
            nt = True
            ctx.event("value-with-special-or-high-octet")
        if where == "sub-edge" and v and (v[0] in _SPECIAL or v[-1] in _SPECIAL):
            ctx.event("substring-special-at-star-boundary")
    for k in gens.filter_kinds(tree):
        ctx.event(f"kind:{k}")
    if nt:
        ctx.nontrivial(tree)
    try:
        f = absval.filter_to_lib(tree)
        text = str(f)
    except Exception as e:
        return [Violation(f"str:{msgcheck.exc_site(e)}", f"{tree!r}: {e!r}")]
    out: t.List[Violation] = []
    if type(text) is not str:
        return [Violation("str:not-a-str", repr(text)[:100])]
    try:
        twins.poison_parser(sansldap.LDAPFilter.from_string, text)
        back = sansldap.LDAPFilter.from_string(text)
        tb = absval.filter_to_abstract(back)
        if tb != tree:
            d = msgcheck.first_diff(tree, tb)
            out.append(Violation(f"library-reparse-differs:{_kind_at(tree, d)}", f"first difference at {d}: {tree!r} -> {text!r} -> {tb!r}"))
    except Exception as e:
        out.append(Violation(f"library-reparse-fails:{type(e).__name__}", f"{tree!r} -> {text!r}: {e!r}"))
    try:
        ref = rfc4515.parse(text, strict=True)
        if ref != tree:
            d = msgcheck.first_diff(tree, ref)
            out.append(Violation(f"text-denotes-another-filter:{_kind_at(tree, d)}", f"first difference at {d}: {tree!r} -> {text!r} reads as {ref!r} for an RFC 4515 parser"))
    except rfc4515.RefSyntaxError as e:
        out.append(Violation("text-is-not-rfc4515", f"{tree!r} -> {text!r}: {e}"))
    return out


def _kind_at(tree: t.Any, path: t.Optional[str]) -> str:
    # kind of the innermost filter node on the diff path (coarse bucket key)
    node = tree
    kind = tree[0]
    if not path:
        return kind
    import re

    for idx in re.findall(r"\[(\d+)\]", path):
        i = int(idx)
        try:
            node = node[i]
        except Exception:
            break
        if isinstance(node, tuple) and node and isinstance(node[0], str):
            kind = node[0]
    return kind


class Trees(Part):
    name = "trees"
    examples = {QUICK: 1200, THOROUGH: 60000}

    def strategy(self, tier: str) -> t.Any:
        return st.one_of(_filters(8), _filters(8), gens.deep_filter((7, 50), leaf=_filters(1)))

    def check(self, case: t.Any, ctx: Ctx) -> t.List[Violation]:
        return check_tree(case, ctx)


class SingleOctets(Part):
    """Every single octet value 0..255 in every value position of every item kind (finite, enumerated)."""

    name = "every-octet"
    exhaustive = True
    shards = {QUICK: 4, THOROUGH: 4}

    def enumerate(self, tier: str, shard: int, nshards: int) -> t.Iterable[t.Any]:
        k = 0
        for b in range(256):
            v = bytes([b])
            trees = [
                ("eq", "cn", v), ("ge", "cn", v), ("le", "cn", v), ("approx", "cn", v),
                ("sub", "cn", v, [], None), ("sub", "cn", None, [v], None), ("sub", "cn", None, [], v), ("sub", "cn", v, [v, v], v),
                ("ext", "2.5.13.2", "cn", v, True), ("ext", None, "cn", v, False), ("ext", "caseIgnoreMatch", None, v, False),
                ("eq", "cn", b"a" + v + b"b"), ("and", [("eq", "cn", v + v), ("not", ("eq", "o", v))]),
            ]
            for tr in trees:
                if k % nshards == shard:
                    yield tr
                k += 1

    def check(self, case: t.Any, ctx: Ctx) -> t.List[Violation]:
        return check_tree(case, ctx)


def _selftest(tier: str, seed: int) -> None:
    P = rfc4515.parse
    assert P("(cn=Babs Jensen)") == ("eq", "cn", b"Babs Jensen")
    assert P("(!(cn=Tim Howes))") == ("not", ("eq", "cn", b"Tim Howes"))
    assert P("(&(objectClass=Person)(|(sn=Jensen)(cn=Babs J*)))") == ("and", [("eq", "objectClass", b"Person"), ("or", [("eq", "sn", b"Jensen"), ("sub", "cn", b"Babs J", [], None)])])
    assert P("(o=univ*of*mich*)") == ("sub", "o", b"univ", [b"of", b"mich"], None)
    assert P("(seeAlso=)") == ("eq", "seeAlso", b"")
    assert P("(cn:caseExactMatch:=Fred Flintstone)") == ("ext", "caseExactMatch", "cn", b"Fred Flintstone", False)
    assert P("(cn:=Betty Rubble)") == ("ext", None, "cn", b"Betty Rubble", False)
    assert P("(sn:dn:2.4.6.8.10:=Barney Rubble)") == ("ext", "2.4.6.8.10", "sn", b"Barney Rubble", True)
    assert P("(o:dn:=Ace Industry)") == ("ext", None, "o", b"Ace Industry", True)
    assert P("(:1.2.3:=Wilma Flintstone)") == ("ext", "1.2.3", None, b"Wilma Flintstone", False)
    assert P("(:DN:2.4.6.8.10:=Dino)") == ("ext", "2.4.6.8.10", None, b"Dino", True)
    assert P("(o=Parens R Us \\28for all your parenthetical needs\\29)") == ("eq", "o", b"Parens R Us (for all your parenthetical needs)")
    assert P("(cn=*\\2A*)") == ("sub", "cn", None, [b"*"], None)
    assert P("(filename=C:\\5cMyFile)") == ("eq", "filename", b"C:\\MyFile")
    assert P("(bin=\\00\\00\\00\\04)") == ("eq", "bin", b"\x00\x00\x00\x04")
    assert P("(sn=Lu\\c4\\8di\\c4\\87)") == ("eq", "sn", "Lučić".encode())
    assert P("(1.3.6.1.4.1.1466.0=\\04\\02\\48\\69)") == ("eq", "1.3.6.1.4.1.1466.0", b"\x04\x02Hi")
    for bad in ["(cn=a(b)", "cn=a", "(cn=a))", "(&)", "(cn=a\\zz)", "(cn=**)", "(:=x)", "(cn;=x)", "(1=x)", "(!(a=b)(c=d))", "( cn=a)"]:
        try:
            P(bad)
        except rfc4515.RefSyntaxError:
            continue
        raise AssertionError(f"reference parser accepted {bad!r}")
    assert P("  ( & (a=b) (c=d ) )  ", spaces=True) == ("and", [("eq", "a", b"b"), ("eq", "c", b"d ")])


PROP = Property(
    id="C13",
    rule=(
        "Generated: filter trees over the 10 node kinds (depth up to 50, fan-out <= 4) with RFC 4512 attribute "
        "descriptions built by construction (descr or numeric OID with >= 2 arcs, 0-2 options) and arbitrary assertion "
        "octets biased to ( ) * \\ NUL, = : ~ < > ! & |, DEL, 0x80-0xFF and UTF-8; restricted to trees that have a text "
        "form (non-empty and/or, substrings with >=1 non-empty component, extensible match with rule or attribute, rule "
        "!= 'dn'); plus every single octet 0..255 in every value position of every item kind (enumerated). Oracle: "
        "LDAPFilter.from_string(str(f)) projects to the same tree, and an independent strict RFC 4515 parser accepts "
        "str(f) and reads the same tree (so every special octet is escaped and content cannot change shape). "
        "Non-trivial = a value with an octet of ( ) * \\ NUL or >= 0x80, or depth >= 2; distinct by tree."
    ),
    parts=[Trees(), SingleOctets()],
    assumptions=["domain restrictions above are those of RFC 4511/4515/4517 (SIZE 1..MAX, substring = 1*..., ambiguous ':dn')"],
    selftest=_selftest,
    technique="property-based round-trip testing + independent RFC 4515 reference parser + exhaustive single-octet sweep",
)
