"""C11 - a client and a server session interoperate under any interleaving."""

from __future__ import annotations

import typing as t

from hypothesis import strategies as st

from .. import absval, gens, history, model, msgcheck, rfc4511, sess
from ..engine import QUICK, THOROUGH, Ctx, Part, Property, Violation

_V = st.integers(0, 11)
_CODES = st.sampled_from([0, 0, 0, 14, 14, 49, 32, 80, 4096])


def steps(max_steps: int) -> t.Any:
    W = history._weighted
    lazy = st.sampled_from([None, None, None, None, 0, 3, 11, 40])  # None = the application drains everything right away
    c_call = st.fixed_dictionaries({"op": st.just("c.call"), "what": st.sampled_from(["search", "search", "extended", "extended", "bind"]), "v": _V, "drain": lazy, "bad-first": history._BAD})
    c_blind = st.fixed_dictionaries({"op": st.just("c.blind"), "what": st.sampled_from(["search", "extended", "bind"]), "v": _V})
    c_unbind = st.fixed_dictionaries({"op": st.just("c.call"), "what": st.just("unbind"), "v": st.just(0), "drain": lazy})
    s_resp = st.fixed_dictionaries({"op": st.just("s.respond"), "which": st.integers(0, 5), "final": st.booleans(), "code": _CODES, "v": _V, "drain": lazy, "bad-first": history._BAD})
    drain = st.fixed_dictionaries({"op": st.just("drain"), "who": st.sampled_from(["c", "s"]), "amount": st.sampled_from([None, None, 1, 7, 25])})
    s_notice = st.fixed_dictionaries({"op": st.just("s.notice"), "which": st.integers(0, 5), "code": _CODES, "v": _V})
    s_blind = st.fixed_dictionaries({"op": st.just("s.blind"), "kind": st.sampled_from(["bind", "entry", "ref", "done", "extended"]),
                                     "id": history.id_refs(["completed", "never", "zero", "open"]), "code": _CODES, "v": _V})
    s_unbind = st.just({"op": "s.unbind"})
    amount = W([(2, st.just(("all",))), (3, st.tuples(st.just("frac"), st.sampled_from([0.0, 0.1, 0.25, 0.5, 0.75, 0.9]))),
                (3, st.tuples(st.just("n"), st.integers(0, 40)))])
    deliver = st.fixed_dictionaries({"op": st.just("deliver"), "dir": st.sampled_from(["c2s", "s2c"]), "amount": amount})
    flush = st.just({"op": "flush"})
    body = history._sized_list(W([(8, c_call), (2, c_blind), (9, s_resp), (2, s_blind), (12, deliver), (3, drain), (2, flush), (1, st.one_of(c_unbind, s_notice, s_unbind))]), max_steps)
    return body


class Joint:
    """The harness' own bookkeeping of the conversation plus the two real sessions."""

    def __init__(self) -> None:
        self.c = sess.new("client")
        self.s = sess.new("server")
        self.cm = model.Model("client")
        self.sm = model.Model("server")
        self.pipe = {"c2s": bytearray(), "s2c": bytearray()}
        self.sent: t.Dict[str, t.List[t.Any]] = {"c2s": [], "s2c": []}
        self.recv: t.Dict[str, t.List[t.Any]] = {"c2s": [], "s2c": []}
        self.discarded = {"c2s": False, "s2c": False}
        self.terminated = {"c2s": False, "s2c": False}  # receiver of that direction saw a designed termination


def run(case: t.Sequence[t.Dict[str, t.Any]], ctx: Ctx) -> t.List[Violation]:
    LDAPError, ProtocolError = sess.errors()
    J = Joint()
    out: t.List[Violation] = []
    in_flight_max = 0
    partial_while_opposite_busy = False
    refused_between_deliveries = False
    last_was_delivery = False
    saw_refused_after_delivery = False

    def push(direction: str, who: t.Any, expected: t.Optional[t.Dict[str, t.Any]], amount: t.Optional[int] = None) -> None:
        # the application hands the session's pending bytes to the transport: all of them, or only ``amount`` now
        # (the rest stays in the session until a later drain step / flush)
        data = who.data_to_send(amount)
        J.pipe[direction].extend(data)
        if expected is not None:
            J.sent[direction].append(expected)

    def drain_all() -> None:
        J.pipe["c2s"].extend(J.c.data_to_send())
        J.pipe["s2c"].extend(J.s.data_to_send())

    def bind_probe(i: int, sides: t.Sequence[str] = ("client",)) -> t.Optional[Violation]:
        # each side lets a bind start exactly when, by its own view, nothing is in progress.
        # (the server is probed through receive, which is only meaningful when no partial message is buffered,
        # i.e. at quiescent points)
        for side, so, mo in (("client", J.c, J.cm), ("server", J.s, J.sm)):
            if side not in sides or sess.state(so) == "CLOSED":
                continue
            can = sess.bind_allowed(so, side)
            want = mo.state != "CLOSED" and not mo.open
            if can is not want:
                return Violation(f"{side}:bind-possible-disagrees-with-operations-in-progress",
                                 f"after step {i}: a bind is {'possible' if can is True else 'refused' if can is False else can} on the {side} "
                                 f"although the bookkeeping has state {mo.state} and operations in progress {dict(mo.open)}")
        return None

    def quiescent_check(i: int) -> t.Optional[Violation]:
        if J.pipe["c2s"] or J.pipe["s2c"] or history._peek(J.c) or history._peek(J.s):
            return None
        cs, ss = sess.state(J.c), sess.state(J.s)
        if not (J.discarded["c2s"] or J.discarded["s2c"]):
            bp = bind_probe(i, ("client", "server"))
            if bp is not None:
                return bp
        if not sess.same_state(cs, ss):
            return Violation("quiescent:states-differ", f"after step {i}: client {cs}, server {ss}; sent c2s {kinds(J.sent['c2s'])} s2c {kinds(J.sent['s2c'])}")
        if cs == "CLOSED":
            return None
        cand = set(J.cm.issued) | set(J.sm.issued) | {0}
        cp = sess.in_progress_set(J.c, "client", cand)
        sp = sess.in_progress_set(J.s, "server", cand)
        want = dict(J.cm.open)
        if set(cp) != set(sp) or cp != want:
            return Violation("quiescent:operations-in-progress-differ", f"after step {i}: client probes {cp}, server probes {sp}, bookkeeping {want}")
        for d in ("c2s", "s2c"):
            if not J.discarded[d] and not J.terminated[d] and J.recv[d] != J.sent[d]:
                return Violation(f"quiescent:{d}:not-everything-received", f"after step {i}: sent {len(J.sent[d])} received {len(J.recv[d])}")
        return None

    def kinds(ms: t.List[t.Any]) -> t.List[str]:
        return [f"{m['kind']}#{m['id']}" for m in ms]

    def deliver(direction: str, n: int, i: int) -> t.Optional[Violation]:
        nonlocal partial_while_opposite_busy
        recv_sess, recv_model = (J.s, J.sm) if direction == "c2s" else (J.c, J.cm)
        pipe = J.pipe[direction]
        n = max(0, min(n, len(pipe)))
        chunk = bytes(pipe[:n])
        del pipe[:n]
        other = "s2c" if direction == "c2s" else "c2s"
        if 0 < n and pipe and J.pipe[other]:
            partial_while_opposite_busy = True
        if sess.state(recv_sess) == "CLOSED":
            if chunk:
                J.discarded[direction] = True
            # an application stops reading a closed connection
            return None
        try:
            got = recv_sess.receive(chunk)
        except ProtocolError as e:
            # only designed terminations are allowed
            req = e.request
            a = absval.to_abstract(req, decoded=True) if req is not None else None
            ok = a is not None and (a["kind"] == "unbindRequest" or (a["kind"] == "extendedResp" and a.get("name") == rfc4511.OID_NOTICE_OF_DISCONNECTION))
            if not ok:
                return Violation(f"{direction}:unexpected-protocol-error", f"step {i}: delivering {chunk[:80].hex()}: {e!r}; sent so far {kinds(J.sent[direction])}, received {kinds(J.recv[direction])}")
            if a not in J.sent[direction]:
                return Violation(f"{direction}:termination-message-differs", f"step {i}: {a!r} was never sent")
            recv_model._close()
            J.terminated[direction] = True
            if sess.state(recv_sess) != "CLOSED":
                return Violation(f"{direction}:not-closed-after-termination", sess.state(recv_sess))
            return None
        except BaseException as e:
            return Violation(f"{direction}:escaped:{msgcheck.exc_site(e, innermost=True)}", f"step {i}: {e!r}")
        for m in got:
            a = absval.to_abstract(m, decoded=True)
            J.recv[direction].append(a)
            k = len(J.recv[direction]) - 1
            if k >= len(J.sent[direction]) or J.sent[direction][k] != a:
                exp = J.sent[direction][k] if k < len(J.sent[direction]) else None
                d = msgcheck.first_diff(exp, a) if exp is not None else "nothing more was sent"
                return Violation(f"{direction}:received-differs-from-sent", f"step {i}: message #{k}: first difference at {d}: sent {exp!r} received {a!r}")
            recv_model.incoming(a["kind"], a["id"], (a.get("result") or {}).get("code", 0), a.get("name") if a["kind"] == "extendedResp" else None)
        return None

    def failed_attempt(so: t.Any, side: str, meth: str, kw: t.Dict[str, t.Any], i: int, step: t.Any) -> t.Optional[Violation]:
        # the application first makes the call with an argument that cannot be encoded: it fails and is a no-op
        before = history._peek(so)
        st0 = sess.state(so)
        ctx.event("failed-attempt-before-call")
        try:
            getattr(so, meth)(**kw)
        except BaseException:
            pass
        else:
            # a library that can encode such text after all is not judged here (C01/C03 judge the bytes); the case ends
            ctx.event("call-with-unencodable-argument-accepted:case-ends")
            return Violation("", "")
        if history._peek(so) != before:
            return Violation(f"{side}:failed-call-left-bytes", f"step {i} {step!r}: {meth}({kw!r})")
        st1 = sess.state(so)
        if st1 != st0 and not (st0 == "NEW" and st1 == "OPEN"):
            return Violation(f"{side}:failed-call-changed-state", f"step {i} {step!r}: {st0} -> {st1}")
        return None

    for i, step in enumerate(case):
        op = step["op"]
        v: t.Optional[Violation] = None
        if op in ("c.call", "c.blind"):
            what = step["what"]
            verdict = J.cm.client_call(what)
            blind = op == "c.blind"
            if blind == verdict.accepted:
                continue  # applications only make calls their session accepts; blind steps only when a refusal is expected
            meth, kw, exp = history.client_call_spec(what, step["v"])
            pending_before = history._peek(J.c) if blind else b""
            if step.get("bad-first") and not blind and what != "unbind":
                v = failed_attempt(J.c, "client", meth, history.client_call_spec(what, step["v"], True)[1], i, step)
                if v is not None:
                    if v.key:
                        out.append(v)
                    return out
            try:
                r = getattr(J.c, meth)(**kw)
            except LDAPError as e:
                if not blind:
                    v = Violation("client:acceptable-call-refused", f"step {i} {step!r} (bookkeeping: {J.cm.state}, open {dict(J.cm.open)}): {e!r}")
                else:
                    ctx.event("blind-call-refused")
                    if last_was_delivery:
                        saw_refused_after_delivery = True
                    if history._peek(J.c) != pending_before:
                        v = Violation("client:refused-call-left-bytes", f"step {i} {step!r}")
            except BaseException as e:
                v = Violation(f"client:call-escaped:{msgcheck.exc_site(e, innermost=True)}", f"step {i} {step!r}: {e!r}")
            else:
                if blind:
                    v = Violation("client:blind-call-accepted", f"step {i} {step!r} (bookkeeping: {J.cm.state}, open {dict(J.cm.open)})")
                else:
                    exp = dict(exp, id=r if what != "unbind" else 0)
                    J.cm.client_called(what, r if what != "unbind" else None)
                    push("c2s", J.c, exp, step.get("drain"))
                    in_flight_max = max(in_flight_max, len(J.cm.open))
            last_was_delivery = False
        elif op in ("s.respond", "s.notice", "s.blind", "s.unbind"):
            if op == "s.unbind":
                if J.sm.state == "CLOSED":
                    continue
                try:
                    J.s.unbind()
                except BaseException as e:
                    v = Violation("server:acceptable-call-refused", f"step {i} unbind: {e!r}")
                else:
                    J.sm.server_called("unbind", 0)
                    push("s2c", J.s, {"kind": "unbindRequest", "id": 0, "controls": []})
            else:
                if op == "s.blind":
                    mid = J.sm.resolve(step["id"])
                    kind = step["kind"]
                else:
                    mid = J.sm.resolve(("open", step["which"]), strict=True)
                    if mid is None:
                        continue
                    if op == "s.notice":
                        kind = "notice"
                    else:
                        okind = J.sm.opkind.get(mid, "extended")
                        kind = {"bind": "bind", "extended": "extended"}.get(okind) or (["entry", "ref"][step["v"] % 2] if not step["final"] else "done")
                meth, kw, exp, name = history.server_call_spec(kind, mid, step["code"], step["v"])
                verdict = J.sm.server_call(kind if kind != "notice" else "extended", mid, step["code"], name)
                blind = op == "s.blind"
                if blind == verdict.accepted:
                    continue
                pending_before = history._peek(J.s) if blind else b""
                if step.get("bad-first") and not blind:
                    v = failed_attempt(J.s, "server", meth, history.server_call_spec(kind, mid, step["code"], step["v"], True)[1], i, step)
                    if v is not None:
                        if v.key:
                            out.append(v)
                        return out
                try:
                    getattr(J.s, meth)(**kw)
                except LDAPError as e:
                    if not blind:
                        v = Violation("server:acceptable-call-refused", f"step {i} {step!r} -> {kind}#{mid} (bookkeeping: {J.sm.state}, open {dict(J.sm.open)}): {e!r}")
                    else:
                        ctx.event("blind-call-refused")
                        if last_was_delivery:
                            saw_refused_after_delivery = True
                        left = history._peek(J.s)
                        if left != pending_before:
                            # the refused response would reach the client
                            v = Violation("server:refused-call-left-bytes", f"step {i} {step!r} -> {kind}#{mid}: pending stream {pending_before.hex()} -> {left.hex()}")
                except BaseException as e:
                    v = Violation(f"server:call-escaped:{msgcheck.exc_site(e, innermost=True)}", f"step {i} {step!r}: {e!r}")
                else:
                    if blind:
                        v = Violation("server:blind-call-accepted", f"step {i} {step!r} -> {kind}#{mid} (bookkeeping: {J.sm.state}, open {dict(J.sm.open)})")
                    else:
                        J.sm.server_called(kind if kind != "notice" else "extended", mid, step["code"], name)
                        push("s2c", J.s, exp, step.get("drain"))
            last_was_delivery = False
        elif op == "deliver":
            d = step["dir"]
            a = step["amount"]
            size = len(J.pipe[d])
            n = size if a[0] == "all" else int(size * a[1]) if a[0] == "frac" else a[1]
            v = deliver(d, n, i)
            if saw_refused_after_delivery:
                refused_between_deliveries = True
            last_was_delivery = True
        elif op == "drain":
            push("c2s" if step["who"] == "c" else "s2c", J.c if step["who"] == "c" else J.s, None, step["amount"])
        elif op == "flush":
            drain_all()
            for _ in range(4):
                for d in ("c2s", "s2c"):
                    if v is None:
                        v = deliver(d, len(J.pipe[d]), i)
            last_was_delivery = True
        if v is None and op in ("deliver", "flush"):
            v = bind_probe(i)
        if v is None:
            v = quiescent_check(i)
            if not (J.pipe["c2s"] or J.pipe["s2c"]):
                ctx.event("quiescent-point")
        if v is not None:
            out.append(v)
            break
    else:
        # final: hand over everything that is still pending in the sessions, deliver everything, then the quiescent
        # check must hold
        drain_all()
        for _ in range(6):
            for d in ("c2s", "s2c"):
                if not out:
                    v = deliver(d, len(J.pipe[d]), len(case))
                    if v is not None:
                        out.append(v)
        if not out:
            v = quiescent_check(len(case))
            if v is not None:
                out.append(v)
    ctx.event(f"max-in-flight:{min(in_flight_max, 4)}")
    ctx.event("final:" + sess.state(J.c) + "/" + sess.state(J.s))
    if in_flight_max >= 2 and partial_while_opposite_busy:
        ctx.nontrivial(repr(case))
        if refused_between_deliveries:
            ctx.event("nontrivial:refused-call-between-deliveries")
    return out


class JointHistories(Part):
    name = "joint"
    examples = {QUICK: 400, THOROUGH: 10000}

    def strategy(self, tier: str) -> t.Any:
        n = 60 if tier == QUICK else 120
        return gens.memo(f"c11.{n}", lambda: steps(n))

    def check(self, case: t.Any, ctx: Ctx) -> t.List[Violation]:
        return run(case, ctx)

    def sample(self, case: t.Any) -> t.Any:
        from .. import jsonx

        return {"steps": jsonx.brief(case[:16]), "n_steps": len(case)}


PROP = Property(
    id="C11",
    rule=(
        "Generated: joint histories (<= 60/120 steps) of client application steps (bind/search/extended/unbind, attempted "
        "only when the harness' bookkeeping says the session accepts them), server application steps (answer a "
        "received, still open request with the matching kind: bind -> bind response incl. SASL continuation, search -> "
        "entry/reference/done, extended -> extended response; notice of disconnection; unbind), blind steps that must "
        "be refused (and leave no bytes), and deliver(direction, amount) steps moving 0..all bytes between the drains "
        "and receive; bytes addressed to a CLOSED side are discarded. Oracle: per direction the received messages equal "
        "the sent ones (plain-data projection, ids as returned by the calls) as a prefix at all times and completely at "
        "every quiescent point; the only ProtocolErrors are delivered unbinds/notices; at every quiescent point the "
        "states agree (NEW~OPEN) and clone probes show the same operations in progress on both sides and in the "
        "bookkeeping. Non-trivial = >=2 requests in flight at once and >=1 partial delivery while the opposite pipe is "
        "non-empty; distinct by step list."
    ),
    parts=[JointHistories()],
    assumptions=[
        "messages decoded in the same receive call before a delivered unbind/notice are not returned (the call raises): only the prefix property is asserted there",
        "blind steps rely on the C08/C10 model for 'must be refused'",
    ],
    technique="stateful property testing of two real sessions joined by generated partial deliveries, with clone probes",
)
