"""C09 - the client correlates responses to requests strictly by message id."""

from __future__ import annotations

import typing as t

from hypothesis import strategies as st

from .. import history, rfc4511, sess
from ..engine import QUICK, THOROUGH, Ctx, Part, Property, Violation
from ._hist import HistoryPart


class Client(HistoryPart):
    name = "client"
    side = "client"
    clauses = {"recv-accept", "recv-messages", "emitted", "refusal-type", "open-set"}

    def nontrivial(self, tr: history.Trace) -> bool:
        for e in tr.events:
            if e.startswith("recv:") and ("reject:id not in progress" in e):
                return True
        return tr.refused_calls > 0 and len(tr.ids) >= 2

    def extra(self, tr: history.Trace, ctx: Ctx) -> t.List[Violation]:
        out = []
        ids = tr.ids
        for a in ids:
            if type(a) is not int or a <= 0:
                out.append(Violation("client:id-not-positive", f"ids handed out: {ids}"))
                break
        for a, b in zip(ids, ids[1:]):
            if not (b > a):
                out.append(Violation("client:ids-not-strictly-increasing" if b != a else "client:id-reused", f"ids handed out: {ids}"))
                break
        if len(set(ids)) != len(ids):
            out.append(Violation("client:id-reused", f"ids handed out: {ids}"))
        for f in tr.findings:
            if f.clause == "state" and "not-CLOSED-after-protocol-error" in f.key:
                out.append(Violation(f.key, f.detail))
        return out


class LongSession(Part):
    """One client session that issues hundreds of requests: ids stay positive / increasing / on the wire at every
    magnitude (1 octet, 2 octets, sign-bit boundaries 127/128, 255/256, 32767/32768) and correlation by id still works."""

    name = "long-session"
    examples = {QUICK: 40, THOROUGH: 80}

    def strategy(self, tier: str) -> t.Any:
        n = st.sampled_from([130, 200, 260, 300] if tier == QUICK else [130, 260, 300, 1000, 33000])
        return st.fixed_dictionaries({"n": n, "kinds": st.lists(st.sampled_from(["search", "extended"]), min_size=1, max_size=8),
                                      "lag": st.integers(0, 5), "probe": st.integers(0, 400)})

    def check(self, case: t.Any, ctx: Ctx) -> t.List[Violation]:
        LDAPError, ProtocolError = sess.errors()
        c = sess.new("client")
        issued: t.List[t.Tuple[int, str]] = []
        answered = 0
        ctx.event("requests", case["n"])
        ctx.nontrivial(repr(case))

        def answer(upto: int) -> t.Optional[Violation]:
            nonlocal answered
            while answered < upto:
                mid, what = issued[answered]
                res = {"code": 0, "matched": "", "diag": "", "referral": None}
                msgs = []
                if what == "search":
                    msgs.append({"kind": "searchResEntry", "id": mid, "controls": [], "name": "cn=e", "attributes": []})
                    msgs.append({"kind": "searchResDone", "id": mid, "controls": [], "result": res})
                else:
                    msgs.append({"kind": "extendedResp", "id": mid, "controls": [], "result": res, "name": None, "value": None})
                data = b"".join(rfc4511.encode(m) for m in msgs)
                try:
                    got = c.receive(data)
                except Exception as e:
                    return Violation("long-session:response-for-open-id-rejected", f"request {answered + 1} id {mid} ({what}): {e!r}")
                ids = [getattr(g, "message_id", None) for g in got]
                if ids != [m["id"] for m in msgs]:
                    return Violation("long-session:responses-not-returned", f"request {answered + 1} id {mid}: returned ids {ids}")
                answered += 1
            return None

        prev = 0
        for i in range(case["n"]):
            what = case["kinds"][i % len(case["kinds"])]
            meth, kw, _exp = history.client_call_spec(what, 0)
            try:
                mid = getattr(c, meth)(**kw)
            except Exception as e:
                return [Violation("long-session:call-refused", f"request {i + 1} ({what}): {e!r}")]
            data = c.data_to_send()
            if type(mid) is not int or mid <= prev:
                return [Violation("long-session:id-not-positive-increasing", f"request {i + 1}: id {mid!r} after {prev}")]
            prev = mid
            try:
                m, _devs = rfc4511.decode(data)
            except rfc4511.DecodeError as e:
                return [Violation("long-session:emitted-undecodable", f"request {i + 1} id {mid}: {e} bytes {data[:40].hex()}")]
            if m["id"] != mid:
                return [Violation("long-session:id-on-wire-differs", f"request {i + 1}: returned {mid}, bytes carry {m['id']} ({data[:12].hex()})")]
            issued.append((mid, what))
            v = answer(len(issued) - case["lag"])
            if v:
                return [v]
        v = answer(len(issued))
        if v:
            return [v]
        # every id is now completed: a response for any of them is a protocol error
        mid = issued[case["probe"] % len(issued)][0]
        late = rfc4511.encode({"kind": "extendedResp", "id": mid, "controls": [], "result": {"code": 0, "matched": "", "diag": "", "referral": None}, "name": None, "value": None})
        try:
            c.receive(late)
            return [Violation("long-session:response-for-completed-id-accepted", f"id {mid} of {len(issued)} requests")]
        except ProtocolError:
            pass
        except Exception as e:
            return [Violation("long-session:completed-id-wrong-error", f"id {mid}: {e!r}")]
        return []


PROP = Property(
    id="C09",
    rule=(
        "Generated: client histories - bind/search/extended calls (incl. refused ones) interleaved with deliveries of "
        "1-3 server messages of every response kind (and request kinds) whose ids are drawn symbolically from {in "
        "progress, search in progress, completed, never issued, 0, negative}. Oracle: ids returned are positive, "
        "strictly increasing, never repeated (also across refused calls) and are the ids the reference decoder finds in "
        "the emitted bytes; a delivered message is accepted iff the model says its id is in progress (a search stays in "
        "progress until its done message, everything else completes on its first response); on rejection ProtocolError "
        "and CLOSED; at the end clone probes must show the model's set of operations in progress. Non-trivial = >=1 "
        "delivered response whose id is not in progress (incl. second final responses and entries after done), or ids "
        "compared across a refused call; distinct by step list. Part long-session: one client issues 130-300 (thorough: up "
        "to 33000) search/extended requests with responses lagging 0-5 requests behind: ids positive, increasing and "
        "equal to the id the reference decoder reads from the emitted bytes, every response for an open id accepted and "
        "returned, a late response for a completed id rejected."
    ),
    parts=[Client(), LongSession()],
    assumptions=["as C08"],
    technique="model-based (stateful) property testing of id correlation with symbolic id classes and scripted single-delivery lifecycles + long generated sessions checked by an independent decoder",
)
