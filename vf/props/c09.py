"""C09 - the client correlates responses to requests strictly by message id."""

from __future__ import annotations

import typing as t

from .. import history
from ..engine import Ctx, Property, Violation
from ._hist import HistoryPart


class Client(HistoryPart):
    name = "client"
    side = "client"
    clauses = {"recv-accept", "recv-messages", "emitted", "refusal-type", "open-set"}

    def nontrivial(self, tr: history.Trace) -> bool:
        for e in tr.events:
            if e.startswith("recv:") and ("reject:id not in progress" in e):
                return True
        return tr.refused_calls > 0 and len(tr.ids) >= 2

    def extra(self, tr: history.Trace, ctx: Ctx) -> t.List[Violation]:
        out = []
        ids = tr.ids
        for a in ids:
            if type(a) is not int or a <= 0:
                out.append(Violation("client:id-not-positive", f"ids handed out: {ids}"))
                break
        for a, b in zip(ids, ids[1:]):
            if not (b > a):
                out.append(Violation("client:ids-not-strictly-increasing" if b != a else "client:id-reused", f"ids handed out: {ids}"))
                break
        if len(set(ids)) != len(ids):
            out.append(Violation("client:id-reused", f"ids handed out: {ids}"))
        for f in tr.findings:
            if f.clause == "state" and "not-CLOSED-after-protocol-error" in f.key:
                out.append(Violation(f.key, f.detail))
        return out


PROP = Property(
    id="C09",
    rule=(
        "Generated: client histories - bind/search/extended calls (incl. refused ones) interleaved with deliveries of "
        "1-3 server messages of every response kind (and request kinds) whose ids are drawn symbolically from {in "
        "progress, search in progress, completed, never issued, 0, negative}. Oracle: ids returned are positive, "
        "strictly increasing, never repeated (also across refused calls) and are the ids the reference decoder finds in "
        "the emitted bytes; a delivered message is accepted iff the model says its id is in progress (a search stays in "
        "progress until its done message, everything else completes on its first response); on rejection ProtocolError "
        "and CLOSED; at the end clone probes must show the model's set of operations in progress. Non-trivial = >=1 "
        "delivered response whose id is not in progress (incl. second final responses and entries after done), or ids "
        "compared across a refused call; distinct by step list."
    ),
    parts=[Client()],
    assumptions=["as C08"],
    technique="model-based (stateful) property testing of id correlation with symbolic id classes",
)
