"""C18 - parsing cost grows polynomially with input size."""

from __future__ import annotations

import typing as t

from hypothesis import strategies as st

from .. import ber, cost, gens, mutate, rfc4511, rfc4512, rfc4515
from ..engine import QUICK, THOROUGH, Ctx, Part, Property, Violation

MAX_LEN = 400
_SUFFIX = ["keep", "truncate", "drop-close", "drop-quote", "foreign", "foreign-tail",
           # a foreign character right after the pump: the late failure may need a particular offending character
           "tail:(", "tail:)", "tail:\x00", "tail:\\", "tail:'", "tail:\u00e9", "tail:*", "tail: ",
           # everything after the pump without any closing parenthesis / cut in the middle (unterminated nesting)
           "no-closers", "half"]

_ALPHABET: t.List[str] = []
# per process: how often a label was confirmed already (on a broken tree thousands of families blow up; a few
# confirmations per root cause are enough, the rest is only counted)
_CONFIRMED: t.Counter[str] = __import__("collections").Counter()


def alphabet() -> t.List[str]:
    if not _ALPHABET:
        _ALPHABET.extend(cost.harvested_alphabet())
    return _ALPHABET


# ---------------------------------------------------------------------------------------- text families


def text_member(case: t.Dict[str, t.Any]) -> t.Callable[[int], str]:
    base = case["base"]
    pos = case["pos"] % (len(base) + 1)
    plen = case["plen"]
    if case.get("tokens"):
        # token-level pump: snap to the previous token boundary and take the next k space-separated tokens
        while pos > 0 and base[pos - 1] != " ":
            pos -= 1
        toks = base[pos:].split(" ")
        plen = len(" ".join(toks[: case["tokens"]])) + 1
    pump = case["sym"] if case["sym"] else (base[pos : pos + plen] or "a")
    prefix = base[:pos]
    rest = base[pos:]
    mode = case["suffix"]
    if mode == "keep":
        suffix = rest
    elif mode == "truncate":
        suffix = ""
    elif mode == "drop-close":
        k = rest.rfind(")")
        suffix = rest[:k] + rest[k + 1 :] if k >= 0 else rest
    elif mode == "drop-quote":
        k = rest.find("'")
        suffix = rest[:k] + rest[k + 1 :] if k >= 0 else rest
    elif mode == "foreign":
        k = rest.rfind(")")
        suffix = (rest[:k] + "\x01" + rest[k:]) if k >= 0 else rest + "\x01"
    elif mode == "no-closers":
        suffix = rest.replace(")", "")
    elif mode == "half":
        suffix = rest[: len(rest) // 2]
    elif mode.startswith("tail:"):
        suffix = mode[5:] + rest
    else:
        suffix = "!" + rest
    return lambda n: prefix + pump * n + suffix


def pump_context(case: t.Dict[str, t.Any]) -> str:
    base = case["base"]
    pos = case["pos"] % (len(base) + 1)
    prefix = base[:pos]
    if case["entry"] == "filter":
        last_open = prefix.rfind("(")
        seg = prefix[last_open + 1 :]
        if "=" in seg:
            return "value"
        if seg.strip() == "" or seg[-1:] in "&|!":
            return "nesting"
        return "attribute"
    if prefix.count("'") % 2 == 1:
        return "quoted-string"
    tail = prefix.rstrip(" ")
    if prefix.endswith(" ") or prefix == "":
        return "space-run"
    if tail.endswith(("$", "(")):
        return "list"
    return "token"


@st.composite
def text_family(draw: t.Any, tier: str) -> t.Dict[str, t.Any]:
    entry = draw(st.sampled_from(["oc", "at", "dcr", "filter", "filter"]))
    if entry == "filter":
        base = draw(gens.memo("c18.filter", lambda: st.one_of(rfc4515.sentence(max_leaves=3, decorate=False), rfc4515.sentence(max_leaves=3))))["text"]
    else:
        kind = {"oc": "objectclass", "at": "attributetype", "dcr": "ditcontentrule"}[entry]
        base = draw(gens.memo(f"c18.{kind}", lambda: rfc4512.sentence(kind)))["text"]
    if len(base) > 160:
        base = base[:160]
    maxp = 4 if tier == QUICK else 12
    sym = draw(st.one_of(st.none(), st.none(), st.sampled_from(alphabet()), st.text(st.sampled_from(alphabet()), min_size=2, max_size=3)))
    return {
        "entry": entry,
        "base": base,
        "pos": draw(st.integers(0, 400)),
        "plen": draw(st.integers(1, maxp)),
        "sym": sym,
        "suffix": draw(st.sampled_from(_SUFFIX)),
        "lines": draw(st.integers(0, 9)) == 0,
        "tokens": draw(st.sampled_from([0, 0, 0, 1, 2, 3, 4])),
    }


# ---------------------------------------------------------------------------------------- receive families

_PDU = rfc4511.encode({"kind": "extendedReq", "id": 1, "controls": [], "name": "1.2", "value": None})


def _search_with_filter(fbytes: bytes) -> bytes:
    body = b"\x04\x00\x0a\x01\x00\x0a\x01\x00\x02\x01\x00\x02\x01\x00\x01\x01\x00" + fbytes + b"\x30\x00"
    op = b"\x63" + ber.length_octets(len(body)) + body
    msg = b"\x02\x01\x01" + op
    return b"\x30" + ber.length_octets(len(msg)) + msg


def recv_builder(name: str, arg: int) -> t.Callable[[int], bytes]:
    if name == "pdus":
        return lambda n: _PDU * n
    if name == "nest-not":
        return lambda n: mutate.deep_not_search_request(n, kind=arg % 3)
    if name == "nest-seq":
        return lambda n: mutate.deep_sequence(n)
    if name == "tag-run":
        return lambda n: b"\x30\x82\x01\x00\x02\x01\x01" + b"\x7f" + b"\x81" * n + b"\x01\x00"
    if name == "len-run":
        return lambda n: b"\x30" + bytes([0x80 | min(n, 126)]) + b"\x00" * min(n, 126) + b"\x02\x01\x01"
    if name == "huge-length":
        return lambda n: b"\x30\x84" + (2**31 - 1 - n).to_bytes(4, "big") + b"\x02\x01\x01" + b"\x00" * n
    if name == "controls":
        ctrl = ber.write(ber.sequence([ber.octet_string(b"1.2.3")]))
        def f(n: int) -> bytes:
            body = b"\x02\x01\x01\x42\x00" + b"\xa0" + ber.length_octets(len(ctrl) * n) + ctrl * n
            return b"\x30" + ber.length_octets(len(body)) + body
        return f
    if name == "filter-and":
        item = b"\x87\x01a"
        return lambda n: _search_with_filter(b"\xa0" + ber.length_octets(len(item) * n) + item * n)
    if name == "substrings":
        comp = b"\x81\x01x"
        def g(n: int) -> bytes:
            subs = b"\x30" + ber.length_octets(len(comp) * n) + comp * n
            inner = b"\x04\x01a" + subs
            return _search_with_filter(b"\xa4" + ber.length_octets(len(inner)) + inner)
        return g
    if name == "big-value":
        return lambda n: rfc4511.encode({"kind": "extendedReq", "id": 1, "controls": [], "name": "1.2", "value": b"v" * (n * 8)})
    raise ValueError(name)


_RECV = ["pdus", "nest-not", "nest-seq", "tag-run", "len-run", "huge-length", "controls", "filter-and", "substrings", "big-value"]


# ---------------------------------------------------------------------------------------- oracle


def check_family(entry: str, member: t.Callable[[int], t.Any], label: str, ctx: Ctx, step: int = 2, lines: bool = False,
                 line_sizes: t.Sequence[int] = (8, 16, 32, 64, 128), info: t.Optional[t.Dict[str, t.Any]] = None,
                 max_points: int = 400, first: t.Optional[cost.Ramp] = None) -> t.List[Violation]:
    out: t.List[Violation] = []
    r = first if first is not None else cost.ramp(entry, member, start=4, step=step, max_len=MAX_LEN, stop_s=0.05, alarm_s=6, max_points=max_points)
    ctx.event(f"ramp:{r.stopped}")
    if info is not None:
        info["fails"] = any(r.raised) or r.stopped == "killed"
    suspicious = False
    if r.stopped == "threshold" and cost.doubling_tail(r.points, 0.05) and r.points[-4][1] >= 0.0005:
        suspicious = True
    if r.stopped == "killed":
        suspicious = True
    if suspicious and _CONFIRMED[label] >= 1:
        ctx.event(f"suspicious-again:{label}")
        return out
    if suspicious:
        ctx.event("ramp:suspicious")
        nxt = (r.points[-1][0] + step) if r.stopped == "threshold" else (r.killed_at if r.killed_at is not None else 4)
        c = cost.ramp(entry, member, start=nxt, step=step, max_len=MAX_LEN, stop_s=1.0, alarm_s=12)
        confirmed = (c.stopped == "threshold" and c.points and c.points[-1][1] > 1.0) or c.stopped == "killed"
        if confirmed:
            _CONFIRMED[label] += 1
            pts = (r.points[-5:] + c.points[:4])
            worst = c.killed_at if c.stopped == "killed" else c.points[-1][0]
            sample = member(worst if worst is not None else nxt)
            shown = sample if isinstance(sample, str) else sample.hex()
            out.append(Violation(f"cpu-doubles-per-repetition:{label}",
                                 f"entry {entry}: CPU seconds per member (n, s): {[(n, round(s, 4)) for n, s in pts]}"
                                 f"{' then killed after 12 s CPU at n=' + str(c.killed_at) if c.stopped == 'killed' else ''}; "
                                 f"a {len(sample)}-unit member: {shown[:300]!r}"))
    if lines and not out and not suspicious:
        counts = cost.count_lines_child(entry, [member(n) for n in line_sizes])
        ctx.event("line-meter")
        done = [c for c in counts if c is not None]
        if len(done) < len(counts):
            # the child hit its 20 s CPU limit: inconclusive by itself (a cubic path may legitimately take that long
            # under tracing); only the exact counts that were completed are judged
            ctx.event("line-meter:killed-after-%d-sizes" % len(done))
        grew = [done[i + 1] > 10 * done[i] for i in range(len(done) - 1) if done[i] > 50]
        if len(grew) >= 2 and grew[-1] and grew[-2]:
            out.append(Violation(f"line-events-grow-faster-than-cubic:{label}",
                                 f"entry {entry}: line events for n={list(line_sizes)}: {counts}"))
        elif len(done) >= 3 and done[-1] > 3 * done[-2] > 0 and done[-2] > 3 * done[-3] > 0:
            ctx.event("line-meter:quadratic-or-cubic")
    return out


class TextFamilies(Part):
    name = "text-families"
    shrinkable = {QUICK: True, THOROUGH: False}  # re-running a 30000-family shard per bucket costs ~10 min each
    examples = {QUICK: 190, THOROUGH: 30000}
    budget = {QUICK: 200.0, THOROUGH: 3000.0}

    def strategy(self, tier: str) -> t.Any:
        return text_family(tier)

    def check(self, case: t.Any, ctx: Ctx) -> t.List[Violation]:
        member = text_member(case)
        where = pump_context(case)
        ctx.event(f"entry:{case['entry']}")
        ctx.event(f"pump-in:{where}")
        ctx.event(f"suffix:{case['suffix']}")
        label = {"oc": "schema", "at": "schema", "dcr": "schema", "filter": "filter"}[case["entry"]] + ":" + where
        info: t.Dict[str, t.Any] = {}
        out = check_family(case["entry"], member, label, ctx, lines=case["lines"], info=info)
        if info.get("fails"):
            ctx.event("member-fails-to-parse")
            ctx.nontrivial((case["entry"], where, case["sym"] or case["base"][case["pos"] % (len(case["base"]) + 1):][:case["plen"]], case["suffix"], case["base"][:case["pos"] % (len(case["base"]) + 1)][-6:]))
        return out

    def sample(self, case: t.Any) -> t.Any:
        m = text_member(case)
        return {"entry": case["entry"], "pump_in": pump_context(case), "suffix": case["suffix"], "member(3)": m(3)[:200]}


class ReceiveFamilies(Part):
    name = "receive-families"
    exhaustive = True
    shards = {QUICK: 8, THOROUGH: 16}
    budget = {QUICK: 200.0, THOROUGH: 1500.0}

    def enumerate(self, tier: str, shard: int, nshards: int) -> t.Iterable[t.Any]:
        k = 0
        for entry in ("recv-server", "recv-client", "recv-server-bytewise"):
            for b in _RECV:
                for arg in range(3 if b == "nest-not" else 1):
                    if k % nshards == shard:
                        yield {"entry": entry, "builder": b, "arg": arg}
                    k += 1

    def check(self, case: t.Any, ctx: Ctx) -> t.List[Violation]:
        member = recv_builder(case["builder"], case["arg"])
        ctx.event(f"builder:{case['builder']}")
        ctx.nontrivial(case)
        sizes = (8, 16, 32, 64) if case["entry"].endswith("bytewise") else (32, 64, 128, 256)
        return check_family(case["entry"], member, f"receive:{case['builder']}", ctx, step=4, lines=True, line_sizes=sizes)


class PumpSweep(Part):
    """Complete enumeration: for one feature-rich sentence per entry point, EVERY position x every symbol of a small
    class alphabet (one representative per character class the grammars distinguish, plus a few two/three character
    fragments) x every suffix mode."""

    name = "pump-sweep"
    exhaustive = True
    shards = {QUICK: 16, THOROUGH: 16}
    budget = {QUICK: 300.0, THOROUGH: 900.0}

    SENTENCES = [
        ("oc", "( 1.2.3 NAME ( 'a' 'b' ) DESC 'd e' OBSOLETE SUP ( t $ u ) STRUCTURAL MUST ( x $ y ) MAY z X-AB-c 'v' X-d ( 'p' 'q' ) X-e ( ) )"),
        ("oc", "( 1.1 SUP 2.5.6.0 MUST ( 1.2 $ 2.5.4.3$cn ) MAY ( 0.9.2342 ) )"),
        ("dcr", "( 1.2.3 NAME ( ) AUX ( a ) X-A ( ) X-B ( 'b' ) X-C 'c' )"),
        ("at", "( 1.2.3 NAME 'n' DESC 'd' SUP s EQUALITY e ORDERING o SUBSTR u SYNTAX 1.2.3{64} SINGLE-VALUE COLLECTIVE NO-USER-MODIFICATION USAGE dSAOperation X-A 'v' )"),
        ("dcr", "( 1.2.3 NAME 'n' AUX ( a $ b ) MUST m MAY ( c $ d ) NOT n X-A 'v' )"),
        ("filter", "(&(cn;lang-en=a\\2ab*c)(|(1.2.3:dn:2.5.13.2:=v)(!(o>=1))))"),
    ]
    SYMBOLS = ["1", "0", "a", "A", " ", "-", "_", ".", "'", "\\", "$", "(", ")", "{", ";", ":", "*", "=", "\\27", "1.", ".1", "a ", " a",
               "' '", "$ a", ";a", "(!", "(&", "\\2", "\\41", "'v' ", "a*", "1.2$", "$1.2", "1.2 $ ",
               # one representative per class that str / bytes / re predicates tell apart
               "\x1f", "\x0b", "\x7f", "\x85", "\xa0", "\u00e9", "\u2028", "\ue000", "\U00010000"]

    def enumerate(self, tier: str, shard: int, nshards: int) -> t.Iterable[t.Any]:
        # one case = all families at one position of one sentence (a batch shares a forked child)
        k = 0
        for entry, base in self.SENTENCES:
            for pos in range(len(base) + 1):
                if k % nshards == shard:
                    yield {"entry": entry, "base": base, "pos": pos}
                k += 1

    def families(self, case: t.Any) -> t.List[t.Dict[str, t.Any]]:
        base, pos = case["base"], case["pos"]
        syms = list(self.SYMBOLS)
        # token-level pumps: the next 1..4 space-separated tokens of the sentence itself (a whole list item, a whole
        # extension, ...), when the position is at a token boundary
        if pos < len(base) and (pos == 0 or base[pos] == " " or base[pos - 1] in " ("):
            toks = base[pos:].split(" ")
            lead = ""
            for k in range(1, 6):
                frag = " ".join(toks[:k])
                if frag and frag not in syms and len(frag) <= 24:
                    syms.append(frag if frag.startswith(" ") or pos == 0 else frag + " ")
        return [{"entry": case["entry"], "base": base, "pos": pos, "plen": 1, "sym": sym, "suffix": suffix}
                for sym in syms for suffix in _SUFFIX]

    def check(self, case: t.Any, ctx: Ctx) -> t.List[Violation]:
        fams = self.families(case)
        where = pump_context(fams[0])
        label = ("filter" if case["entry"] == "filter" else "schema") + ":" + where
        if _CONFIRMED[label] >= 1 or sum(_CONFIRMED.values()) >= 3:
            ctx.event("sweep-position-skipped-after-confirmed-violations")
            return []
        ramps = cost.ramp_many(case["entry"], [text_member(f) for f in fams], start=4, step=2, max_len=MAX_LEN, stop_s=0.05, alarm_s=3,
                               max_points=26)
        ctx.extra_evaluations += len(fams) - 1
        ctx.event(f"entry:{case['entry']}", len(fams))
        ctx.event(f"pump-in:{where}", len(fams))
        out: t.List[Violation] = []
        for f, r in zip(fams, ramps):
            if any(r.raised) or r.stopped == "killed":
                ctx.event("member-fails-to-parse")
                ctx.nontrivial((f["entry"], f["pos"], f["sym"], f["suffix"]))
            if r.stopped in ("threshold", "killed"):
                out.extend(check_family(f["entry"], text_member(f), label, ctx, max_points=26, first=r))
            else:
                ctx.event(f"ramp:{r.stopped}")
        seen = set()
        return [v for v in out if not (v.key in seen or seen.add(v.key))]

    def sample(self, case: t.Any) -> t.Any:
        f = self.families(case)[7]
        return {"entry": case["entry"], "pos": case["pos"], "families_at_this_position": len(self.SYMBOLS) * len(_SUFFIX),
                "one of them": {"pump": f["sym"], "suffix": f["suffix"], "member(3)": text_member(f)(3)}}


class ReceiveFieldSweep(Part):
    """Complete enumeration: every str/bytes field of one message per kind (incl. control types and values, filter
    attributes/values, credentials, referrals) is pumped with every symbol of a small class alphabet and ended with a
    late-failure character, and the message is delivered to receive (a validation step on any field is exercised)."""

    name = "receive-field-sweep"
    exhaustive = True
    shards = {QUICK: 16, THOROUGH: 16}
    budget = {QUICK: 300.0, THOROUGH: 900.0}
    SYMBOLS = ["1", "a", "A", ".", " ", "\\", "*", "(", "1.", ".1", "a ", "=", "\u00e9", "-", ";a", "\x00"]
    SUFFIXES = ["", "x", "!", "."]

    def enumerate(self, tier: str, shard: int, nshards: int) -> t.Iterable[t.Any]:
        from .. import msgcheck

        k = 0
        for tname, tmpl in msgcheck._templates().items():
            for path in msgcheck._leaf_paths(tmpl):
                cur: t.Any = tmpl
                for key in path:
                    cur = cur[key]
                if isinstance(cur, str) and cur in msgcheck._TAG_WORDS and isinstance(path[-1], int) and path[-1] == 0:
                    continue
                if k % nshards == shard:
                    yield {"template": tname, "path": list(path), "is_str": isinstance(cur, str)}
                k += 1

    def member(self, case: t.Any) -> t.Callable[[int], bytes]:
        from .. import msgcheck

        tmpl = msgcheck._templates()[case["template"]]
        path = tuple(case["path"])

        def build(n: int) -> bytes:
            v: t.Any = case["sym"] * n + case["suffix"]
            if not case["is_str"]:
                v = v.encode("utf-8")
            return rfc4511.encode(msgcheck._set_path(tmpl, path, v))

        return build

    def check(self, case: t.Any, ctx: Ctx) -> t.List[Violation]:
        fams = [dict(case, sym=sym, suffix=suf) for sym in self.SYMBOLS for suf in self.SUFFIXES]
        field = ".".join(str(p) for p in case["path"] if not isinstance(p, int)) or "field"
        label = f"receive:{case['template'].split('/')[0]}:{field}"
        if _CONFIRMED[label] >= 1 or sum(_CONFIRMED.values()) >= 3:
            ctx.event("sweep-field-skipped-after-confirmed-violations")
            return []
        ramps = cost.ramp_many("recv-server", [self.member(f) for f in fams], start=4, step=2, max_len=MAX_LEN, stop_s=0.05, alarm_s=3,
                               max_points=40)
        ctx.extra_evaluations += len(fams) - 1
        ctx.event(f"template:{case['template']}", len(fams))
        out: t.List[Violation] = []
        for f, r in zip(fams, ramps):
            ctx.nontrivial((f["template"], tuple(f["path"]), f["sym"], f["suffix"]))
            if r.stopped in ("threshold", "killed"):
                out.extend(check_family("recv-server", self.member(f), label, ctx, max_points=40, first=r))
        seen = set()
        return [v for v in out if not (v.key in seen or seen.add(v.key))]

    def sample(self, case: t.Any) -> t.Any:
        f = dict(case, sym="1.", suffix="x")
        return {"template": case["template"], "field": case["path"], "families_for_this_field": len(self.SYMBOLS) * len(self.SUFFIXES),
                "one of them": {"pump": "1.", "suffix": "x", "member(3)": self.member(f)(3).hex()}}


class KnownShapes(Part):
    """A fixed list of classic blow-up shapes for every regular expression position (enumerated)."""

    name = "known-shapes"
    exhaustive = True
    shards = {QUICK: 8, THOROUGH: 8}
    budget = {QUICK: 200.0, THOROUGH: 600.0}

    SHAPES = [
        ("oc", "( 1.2 DESC '", "a", ""), ("oc", "( 1.2 DESC '", "\\27", ""), ("oc", "( 1.2 DESC '", "ab", "!"), ("at", "( 1.2 DESC '", "a", " )"),
        ("dcr", "( 1.2 DESC '", "a", "' X"), ("oc", "( 1.2 X-A '", "a", ""), ("oc", "( 1.2 X-A ( 'b' '", "a", ""), ("oc", "( 1.2 NAME '", "a", ""),
        ("oc", "( 1.2 NAME ( '", "a' '", ""), ("oc", "( 1.2 SUP ( a ", "$ a ", "!"), ("oc", "( 1.2 SUP ( a", " ", "$"), ("oc", "( 1", ".1", "!"),
        ("oc", "( 1.2", " ", "!"), ("oc", "( 1.2 MUST a", "-a", " !"), ("at", "( 1.2 SYNTAX 1.2", ".3", "{"), ("at", "( 1.2 SYNTAX '", "1.", ""),
        ("oc", "( 1.2 X-", "a", " "), ("oc", "( 1.2 X-A", " ", "'"), ("oc", "( 1.2 X-A 'a'", " X-A 'a'", " !"), ("oc", "(", " ", "1"),
        ("filter", "(1", ".1", "!=x)"), ("filter", "(1", ".1", "=x"), ("filter", "(a", ";a", "!=x)"), ("filter", "(a", "-", ":=x)"), ("filter", "(cn:", "1.", ":=x)"),
        ("filter", "(cn:dn:1", ".1", "!:=x)"), ("filter", "(cn=", "\\2", ")"), ("filter", "(cn=", "*a", "*"), ("filter", "(cn=", "\\", ""),
        ("filter", "", "(!", "(a=b)"), ("filter", "", "(&", "(a=b"), ("filter", "(&", "(a=b)", ""), ("filter", "", " ", "(a=b)"), ("filter", "(cn=a", ")", ""),
        ("filter", "(1.2", ";x", "\n=a)"), ("filter", "(0", ".0", ";=a)"), ("filter", "(", "0", ".=a)"),
    ]

    def enumerate(self, tier: str, shard: int, nshards: int) -> t.Iterable[t.Any]:
        for i, s in enumerate(self.SHAPES):
            if i % nshards == shard:
                yield list(s)

    def check(self, case: t.Any, ctx: Ctx) -> t.List[Violation]:
        entry, prefix, pump, suffix = case
        ctx.nontrivial(tuple(case))
        fam = "filter" if entry == "filter" else "schema"
        c = {"entry": entry, "base": prefix, "pos": len(prefix), "plen": 1, "sym": pump, "suffix": "keep"}
        return check_family(entry, lambda n: prefix + pump * n + suffix, f"{fam}:{pump_context(c)}", ctx, lines=True)


PROP = Property(
    id="C18",
    rule=(
        "Generated: input families (entry point, prefix, pump, suffix) with members prefix + pump*n + suffix: a sentence "
        "from the RFC 4512 / RFC 4515 generators is cut at a generated position, the pump is the 1-4 (thorough: 1-8) "
        "characters found there or 1-3 symbols harvested at run time from the parsers' own regular expressions, and the "
        "suffix keeps the rest, truncates, drops the closing parenthesis/quote or inserts a foreign character (late "
        "failure); for receive: many PDUs, deep nesting, tag/length octet runs, huge declared lengths, long control/"
        "filter/substring lists, byte-wise delivery, and a complete sweep pumping every str/bytes field of one message per kind "
        "with 16 class symbols x 4 endings; plus a complete sweep (every position x 35 class symbols x 16 suffix "
        "modes) over one feature-rich sentence per entry point, and a fixed list of 37 classic shapes. Oracle (scaling relation): "
        "(b) members are ramped n=4,6,8.. (<= 400 units) in a forked child killed by a CPU-time alarm; a family "
        "violates the property if CPU time at least doubled on each of the last three +2 steps ending above 50 ms AND a "
        "continuation of the ramp reaches 1 s (or the 12 s CPU kill) still within 400 units; (a) exact counts of "
        "Python line events inside sansldap for n,2n,4n,8n must not grow by more than x10 twice in a row (> cubic). "
        "Non-trivial = a family whose member fails to parse (late failure) - distinct by (entry, pump context, pump, "
        "suffix mode) - and all receive families / known shapes."
    ),
    parts=[TextFamilies(), PumpSweep(), ReceiveFamilies(), ReceiveFieldSweep(), KnownShapes()],
    assumptions=[
        "cost of degree <= 3 cannot double per +2 repetitions beyond n = 10, and a polynomial parser needs far less than 1 ms for 400 units, so the criterion has a > 1000x margin; CPU time (not wall time) is measured",
        "families with period > 8 or needing three coordinated pumps are outside the search",
    ],
    technique="generated input-family search with a scaling-relation oracle (CPU ramp in killable children + deterministic line-event counts)",
)
