"""C14 - filter text is parsed as RFC 4515 defines it."""

from __future__ import annotations

import typing as t

from hypothesis import strategies as st

from .. import absval, gens, msgcheck, rfc4511, rfc4515, twins
from ..engine import QUICK, THOROUGH, Ctx, Part, Property, Violation
from .c13 import _kind_at


def check_sentence(c: t.Dict[str, t.Any], ctx: Ctx) -> t.List[Violation]:
    import sansldap

    text, tree, stats = c["text"], c["tree"], c["stats"]
    for k, v in stats.items():
        if k.startswith(("item:", "ext:")) or k in ("empty-value", "mixed-case-dn", "ext-without-attr"):
            ctx.event(k)
    if c["decorated"]:
        ctx.event("decorated")
    ctx.event(f"depth:{min(c['depth'], 13)}" if c["depth"] < 64 else f"depth:>={64 if c['depth'] < 100 else 100 if c['depth'] < 200 else 200}")
    nt = (stats.get("esc", 0) >= 1 and stats.get("lit-special-adjacent", 0) >= 1) or (c["depth"] >= 3 and c["decorated"]) or stats.get("ext-without-attr", 0) >= 1
    if nt:
        ctx.nontrivial(text)
    # harness self-check on every case: the derivation and the reference parser agree
    ref = rfc4515.parse(text, strict=not c["decorated"], spaces=c["decorated"])
    if ref != tree:
        raise AssertionError(f"harness: derivation {tree!r} and reference parser {ref!r} disagree on {text!r}")
    out: t.List[Violation] = []
    try:
        twins.poison_parser(sansldap.LDAPFilter.from_string, text)
        f = sansldap.LDAPFilter.from_string(text)
    except Exception as e:
        where = "decorated" if c["decorated"] else "plain"
        return [Violation(f"sentence-rejected:{type(e).__name__}:{where}", f"{text!r} (denotes {tree!r}): {e!r}")]
    got = absval.filter_to_abstract(f)
    if got != tree:
        d = msgcheck.first_diff(tree, got)
        out.append(Violation(f"parsed-tree-differs:{_kind_at(tree, d)}", f"first difference at {d}: {text!r} denotes {tree!r}, parsed as {got!r}"))
        return out
    # and the bytes then encoded for a search request are the RFC 4511 encoding of that tree
    try:
        req = sansldap.SearchRequest(message_id=1, controls=[], base_object="", scope=sansldap.SearchScope.SUBTREE,
                                     deref_aliases=sansldap.DereferencingPolicy.NEVER, size_limit=0, time_limit=0, types_only=False,
                                     filter=f, attributes=[])
        data = req.pack(absval.default_options())
        m, devs = rfc4511.decode(data)
        if devs:
            out.append(Violation(f"encoded-filter-deviates:{devs[0].code}", f"{text!r}: {devs[:3]!r}"))
        if m["filter"] != tree:
            d = msgcheck.first_diff(tree, m["filter"])
            out.append(Violation(f"encoded-filter-differs:{_kind_at(tree, d)}", f"{text!r}: encoded as {m['filter']!r}"))
    except rfc4511.DecodeError as e:
        out.append(Violation(f"encoded-filter-undecodable:{e.code}", f"{text!r}: {e}"))
    except RecursionError:
        ctx.event("encode-skipped:recursion-limit")
    return out


class Sentences(Part):
    name = "sentences"
    examples = {QUICK: 1000, THOROUGH: 50000}

    def strategy(self, tier: str) -> t.Any:
        deep = (13, 60) if tier == QUICK else (13, 150)
        return st.one_of(rfc4515.sentence(max_leaves=6), rfc4515.sentence(max_leaves=6), rfc4515.sentence(max_leaves=2), rfc4515.deep_sentence(deep),
                         rfc4515.very_deep_sentence())

    def check(self, case: t.Any, ctx: Ctx) -> t.List[Violation]:
        if "deep" in case:
            case = rfc4515.expand_deep(case["deep"])
        return check_sentence(case, ctx)

    def sample(self, case: t.Any) -> t.Any:
        from .. import jsonx

        if "deep" in case:
            return {"deep": jsonx.brief(case["deep"]), "text": rfc4515.expand_deep(case["deep"])["text"][:300]}
        return {"text": case["text"][:300], "tree": jsonx.brief(case["tree"])}


PROP = Property(
    id="C14",
    rule=(
        "Generated: sentences produced by walking the RFC 4515 grammar (all item productions, all six extensible forms, "
        "attribute descriptions with options and numeric OIDs, every value octet chosen between its literal form where "
        "'normal' allows it - incl. raw multi-byte UTF-8, control characters, = : ~ < > ! & | and spaces - and \\hh in "
        "lower/upper/mixed hex case, empty values, nesting up to 60, thorough: 150, plus very deep sentences of depth "
        "64..300 - about 60 % of what the default interpreter stack allows this parser), optionally decorated with the spaces the library "
        "documents as tolerated (around the filter, after '(', after the operator, between and after sub-filters); the "
        "expected tree comes from the derivation and is cross-checked against the reference parser on every case. "
        "Oracle: from_string(text) projects to that tree and the SearchRequest packed with it reference-decodes to the "
        "same filter. Non-trivial = >=1 escape and >=1 literal special-adjacent octet, or depth >= 3 with decoration, or "
        "an extensible form without attribute; distinct by text."
    ),
    parts=[Sentences()],
    assumptions=[
        "same RFC-grounded exclusions as C13; ':dn' is generated in lower case only (see DESIGN.md C14 judgement call)",
    ],
    selftest=__import__("vf.props.c13", fromlist=["_selftest"])._selftest,
    technique="grammar-based sentence generation with derivation-denoted trees + independent reference parser and RFC 4511 decoder",
)
