"""C07 - BER primitives agree with an arithmetic oracle in both directions."""

from __future__ import annotations

import typing as t

from hypothesis import strategies as st

from .. import ber, gens
from ..engine import QUICK, THOROUGH, Ctx, Part, Property, Violation


def _lib():
    from sansldap import asn1

    return asn1


def _tag(cls: int, number: int, constructed: bool):
    a = _lib()
    return a.ASN1Tag(a.TagClass(cls), number, constructed)


def _exc_key(prefix: str, e: BaseException) -> str:
    return f"{prefix}:exception:{type(e).__name__}"


_KINDS = ["integer", "enumerated", "ctx", "app"]


def _kind_tag(kind: str, tagnum: int) -> t.Tuple[t.Any, t.Tuple[int, bool, int]]:
    if kind == "integer":
        return None, (ber.UNIVERSAL, False, 2)
    if kind == "enumerated":
        return None, (ber.UNIVERSAL, False, 10)
    if kind == "ctx":
        return _tag(ber.CONTEXT, tagnum, False), (ber.CONTEXT, False, tagnum)
    return _tag(ber.APPLICATION, tagnum, False), (ber.APPLICATION, False, tagnum)


def _write_int(kind: str, tagnum: int, v: int) -> bytes:
    a = _lib()
    w = a.ASN1Writer()
    tag, _ = _kind_tag(kind, tagnum)
    if kind == "enumerated":
        w.write_enumerated(v)
    else:
        w.write_integer(v, tag=tag)
    return bytes(w.get_data())


def _read_int(kind: str, tagnum: int, data: bytes) -> t.Tuple[int, bytes]:
    a = _lib()
    r = a.ASN1Reader(data)
    tag, _ = _kind_tag(kind, tagnum)
    if kind == "enumerated":
        v = r.read_enumerated(int)
    else:
        v = r.read_integer(tag=tag)
    return v, r.get_remaining_data()


def _check_int(v: int, kind: str, tagnum: int, tail: bytes, ctx: Ctx) -> t.List[Violation]:
    out: t.List[Violation] = []
    _, (c, k, n) = _kind_tag(kind, tagnum)
    content = ber.int_to_content(v)
    expect = ber.ident_octets(c, k, n) + ber.length_octets(len(content)) + content
    sign = "neg" if v < 0 else "nonneg"
    ctx.event(f"{kind}:{sign}:{min(len(content), 9)}oct")
    if v < 0 and len(content) > 1 and content[-1] == 0:
        ctx.event("neg-low-zero-octet")
        if len(content) > 2 and content[-2] == 0:
            ctx.event("neg-two-low-zero-octets")
    try:
        got = _write_int(kind, tagnum, v)
    except Exception as e:
        return [Violation(_exc_key("int:write", e), f"write {kind} {v}: {e!r}")]
    if got != expect:
        what = "content" if got[: len(expect) - len(content)] == expect[: len(expect) - len(content)] else "header"
        out.append(Violation(f"int:write:{what}:{sign}", f"write {kind} {v}: got {got.hex()} expected {expect.hex()}"))
    try:
        back, rest = _read_int(kind, tagnum, expect + tail)
    except Exception as e:
        out.append(Violation(_exc_key(f"int:read-minimal:{sign}", e), f"read {kind} {expect.hex()} (= {v}): {e!r}"))
        return out
    if back != v or type(back) is not int:
        out.append(Violation(f"int:read-minimal:wrong-value:{sign}", f"read {expect.hex()}: got {back!r} expected {v}"))
    if rest != tail:
        out.append(Violation("int:read:consumed", f"read {expect.hex()}+{tail.hex()}: remaining {rest.hex()}"))
    return out


class IntPart(Part):
    name = "int"
    examples = {QUICK: 1500, THOROUGH: 12000}

    def strategy(self, tier: str) -> t.Any:
        return st.fixed_dictionaries(
            {
                "v": gens.ints(),
                "kind": st.sampled_from(_KINDS),
                "tagnum": st.sampled_from([0, 1, 2, 7, 30, 31, 127, 128, 1000]),
                "tail": st.binary(max_size=3),
            }
        )

    def check(self, case: t.Any, ctx: Ctx) -> t.List[Violation]:
        v = case["v"]
        content = ber.int_to_content(v)
        if (v < 0 and len(content) > 1 and content[-1] == 0) or abs(v) >= 2**15:
            ctx.nontrivial(("int", v))
        return _check_int(v, case["kind"], case["tagnum"], case["tail"], ctx)


class IntSweep(Part):
    """Every integer in a contiguous range (finite sub-domain, enumerated completely)."""

    name = "int-sweep"
    exhaustive = True
    bound = {QUICK: 2**16 + 600, THOROUGH: 2**18 + 600}

    def enumerate(self, tier: str, shard: int, nshards: int) -> t.Iterable[t.Any]:
        b = self.bound[tier]
        return range(-b + shard, b + 1, nshards)

    def check(self, case: t.Any, ctx: Ctx) -> t.List[Violation]:
        v = case
        if abs(v) >= 2**15 or (v < 0 and v % 256 == 0):
            ctx.nontrivial(("int", v))
        return _check_int(v, "integer", 0, b"", ctx)

    def sample(self, case: t.Any) -> t.Any:
        return {"v": case}


@st.composite
def _contents(draw: t.Any) -> bytes:
    mode = draw(st.sampled_from(["minimal", "padded", "raw"]))
    if mode == "raw":
        return draw(
            st.lists(st.sampled_from([0, 1, 0x7F, 0x80, 0xFE, 0xFF]) | st.integers(0, 255), min_size=1, max_size=12).map(bytes)
        )
    v = draw(gens.ints())
    c = ber.int_to_content(v)
    if mode == "padded":
        k = draw(st.integers(1, 4))
        c = (b"\xff" if v < 0 else b"\x00") * k + c
    return c


class ContentPart(Part):
    """Reader maps any non-empty content octets (minimal or padded) to the value they denote."""

    name = "content"
    examples = {QUICK: 1500, THOROUGH: 12000}

    def strategy(self, tier: str) -> t.Any:
        return st.fixed_dictionaries(
            {
                "content": _contents(),
                "kind": st.sampled_from(_KINDS),
                "tagnum": st.sampled_from([0, 3, 30, 31, 200]),
                "lenk": st.sampled_from([0, 0, 0, 1, 2, 4, 9, 126]),
                "tail": st.binary(max_size=3),
            }
        )

    def check(self, case: t.Any, ctx: Ctx) -> t.List[Violation]:
        content, kind, tagnum, tail = case["content"], case["kind"], case["tagnum"], case["tail"]
        _, (c, k, n) = _kind_tag(kind, tagnum)
        want = ber.content_to_int(content)
        padded = not ber.is_minimal_int(content)
        form = ("long", case["lenk"]) if case["lenk"] else None
        data = ber.ident_octets(c, k, n) + ber.length_octets(len(content), form) + content
        sign = "neg" if want < 0 else "nonneg"
        ctx.event(f"{'padded' if padded else 'minimal'}:{sign}")
        if padded or (want < 0 and content[-1] == 0) or len(content) >= 3:
            ctx.nontrivial(("content", content))
        try:
            got, rest = _read_int(kind, tagnum, data + tail)
        except Exception as e:
            cls = "padded" if padded else "minimal"
            return [Violation(_exc_key(f"int:read-{cls}:{sign}", e), f"read {kind} {data.hex()} (= {want}): {e!r}")]
        out = []
        if got != want:
            cls = "padded" if padded else "minimal"
            out.append(Violation(f"int:read-{cls}:wrong-value:{sign}", f"read {data.hex()}: got {got!r} expected {want}"))
        if rest != tail:
            out.append(Violation("int:read:consumed", f"read {data.hex()}+{tail.hex()}: remaining {rest.hex()}"))
        return out


_TAGNUMS = list(range(0, 41)) + [127, 128, 129, 16383, 16384, 2**21 - 1, 2**21, 2**21 + 1, 2**28, 2**35]


@st.composite
def _tagspec(draw: t.Any) -> t.Tuple[int, int, bool]:
    cls = draw(st.integers(0, 3))
    if cls == 0:
        number = draw(st.integers(0, 36))
    else:
        number = draw(st.one_of(st.sampled_from(_TAGNUMS), st.integers(0, 2**64)))
    return (cls, number, draw(st.booleans()))


class TagPart(Part):
    name = "tag"
    examples = {QUICK: 800, THOROUGH: 6000}

    def strategy(self, tier: str) -> t.Any:
        return st.fixed_dictionaries(
            {"tag": _tagspec(), "other": _tagspec(), "content": st.binary(max_size=6), "tail": st.binary(max_size=3)}
        )

    def check(self, case: t.Any, ctx: Ctx) -> t.List[Violation]:
        a = _lib()
        cls, number, constructed = case["tag"]
        content, tail = case["content"], case["tail"]
        out: t.List[Violation] = []
        ident = ber.ident_octets(cls, constructed, number)
        expect = ident + ber.length_octets(len(content)) + content
        ctx.event(f"class{cls}:{'high' if number >= 31 else 'low'}:{'C' if constructed else 'P'}")
        if number >= 31:
            ctx.nontrivial(("tag", case["tag"]))
        tag = _tag(cls, number, constructed)
        try:
            w = a.ASN1Writer()
            w.write_octet_string(content, tag=tag)
            got = bytes(w.get_data())
        except Exception as e:
            return [Violation(_exc_key("tag:write", e), f"write tag {case['tag']}: {e!r}")]
        if got != expect:
            out.append(Violation("tag:write:identifier", f"tag {case['tag']}: got {got.hex()} expected {expect.hex()}"))
        try:
            r = a.ASN1Reader(expect + tail)
            h = r.peek_header()
            t_ok = (
                int(h.tag.tag_class) == cls
                and int(h.tag.tag_number) == number
                and h.tag.is_constructed is constructed
                and h.tag_length == len(ident) + len(ber.length_octets(len(content)))
                and h.length == len(content)
            )
            if not t_ok:
                out.append(Violation("tag:peek_header", f"tag {case['tag']} bytes {expect.hex()}: header {h!r}"))
            val = r.read_octet_string(tag=tag)
            rest = r.get_remaining_data()
            if val != content or rest != tail:
                out.append(Violation("tag:read", f"tag {case['tag']}: read {val!r} rest {rest!r}"))
            # reading through the header shortcut must give the same
            r2 = a.ASN1Reader(expect + tail)
            val2 = r2.read_octet_string(header=r2.peek_header())
            if val2 != content or r2.get_remaining_data() != tail:
                out.append(Violation("tag:read-with-header", f"tag {case['tag']}: read {val2!r}"))
        except Exception as e:
            out.append(Violation(_exc_key("tag:read", e), f"tag {case['tag']} bytes {expect.hex()}: {e!r}"))
        ocls, onum, ocons = case["other"]
        if (ocls, onum, ocons) != (cls, number, constructed):
            try:
                a.ASN1Reader(expect).read_octet_string(tag=_tag(ocls, onum, ocons))
            except ValueError:
                ctx.event("mismatch-rejected")
            except Exception as e:
                out.append(Violation(_exc_key("tag:mismatch", e), f"{case['tag']} read as {case['other']}: {e!r}"))
            else:
                out.append(Violation("tag:mismatch-accepted", f"{case['tag']} accepted as {case['other']}"))
        return out


class LengthPart(Part):
    name = "length"
    examples = {QUICK: 150, THOROUGH: 400}
    shards = {QUICK: 4, THOROUGH: 16}

    def strategy(self, tier: str) -> t.Any:
        sizes = gens.BOUNDARY_SIZES + gens.BIG_SIZES + [300, 1000, 2**16 + 300]
        if tier == THOROUGH:
            sizes = sizes + [2**24 - 1, 2**24, 2**24 + 1]
        written = st.fixed_dictionaries(
            {"mode": st.just("written"), "size": st.one_of(st.sampled_from(sizes), st.integers(0, 70000)),
             "fill": st.integers(0, 255)}
        )
        declared = st.fixed_dictionaries(
            {
                "mode": st.just("declared"),
                "n": st.one_of(st.sampled_from([0, 1, 127, 128, 255, 256, 65535, 65536, 2**24, 2**31 - 1, 2**32, 2**56]),
                               st.integers(0, 2**64 - 1)),
                # X.690 8.1.3.5: up to 126 length octets (0xFF is reserved); leading zero octets are allowed
                "k": st.one_of(st.integers(1, 8), st.integers(1, 8), st.sampled_from([9, 10, 12, 16, 17, 33, 64, 126])),
            }
        )
        return st.one_of(written, declared)

    def check(self, case: t.Any, ctx: Ctx) -> t.List[Violation]:
        a = _lib()
        out: t.List[Violation] = []
        if case["mode"] == "written":
            n = case["size"]
            content = bytes([case["fill"]]) * n
            lo = ber.length_octets(n)
            expect_hdr = b"\x04" + lo
            ctx.event(f"written:{len(lo)}len-octets")
            if n >= 128:
                ctx.nontrivial(("len", n))
            try:
                w = a.ASN1Writer()
                w.write_octet_string(content)
                got = bytes(w.get_data())
                if got[: len(expect_hdr)] != expect_hdr or len(got) != len(expect_hdr) + n:
                    out.append(Violation("length:write", f"size {n}: header {got[:12].hex()} expected {expect_hdr.hex()}"))
                r = a.ASN1Reader(expect_hdr + content + b"\x99")
                h = r.peek_header()
                if h.length != n or h.tag_length != len(expect_hdr):
                    out.append(Violation("length:peek_header", f"size {n}: {h!r}"))
                val = r.read_octet_string()
                if val != content or r.get_remaining_data() != b"\x99":
                    out.append(Violation("length:read", f"size {n}: read {len(val)} octets"))
            except Exception as e:
                out.append(Violation(_exc_key("length", e), f"size {n}: {e!r}"))
        else:
            n, k = case["n"], case["k"]
            need = max(1, (n.bit_length() + 7) // 8)
            k = max(k, need)
            data = b"\x04" + bytes([0x80 | k]) + n.to_bytes(k, "big")
            ctx.event(f"declared:{'padded' if k > need else 'tight'}")
            ctx.nontrivial(("decl", n, k))
            try:
                h = a.ASN1Reader(data).peek_header()
                if h.length != n or h.tag_length != 2 + k:
                    out.append(Violation("length:peek_header-long-form", f"{data.hex()}: {h!r} expected length {n}"))
            except Exception as e:
                out.append(Violation(_exc_key("length:declared", e), f"{data.hex()}: {e!r}"))
        return out


# ---------------------------------------------------------------------------------------- trees


def _leaf() -> t.Any:
    return st.one_of(
        st.tuples(st.just("int"), gens.ints()),
        st.tuples(st.just("enum"), gens.ints()),
        st.tuples(st.just("bool"), st.booleans()),
        st.tuples(st.just("oct"), gens.small_octets(12)),
        st.tuples(st.just("coct"), st.integers(0, 40), gens.small_octets(6)),
        # a large value (the enclosing sequences then need 3 length octets; writers sometimes switch strategy at 64 KiB)
        st.tuples(st.just("oct"), st.sampled_from([255, 256, 65535, 65536, 70000]).map(lambda n: b"\x5a" * n)),
    )


def _tree() -> t.Any:
    return st.recursive(
        _leaf(),
        lambda kids: st.one_of(
            st.tuples(st.just("seq"), st.none(), st.lists(kids, max_size=4)),
            st.tuples(st.just("set"), st.none(), st.lists(kids, max_size=4)),
            st.tuples(st.just("seq"), st.tuples(st.integers(1, 3), st.integers(0, 200)), st.lists(kids, max_size=3)),
        ),
        max_leaves=14,
    )


def _ref_tree(node: t.Any) -> ber.Tlv:
    k = node[0]
    if k == "int":
        return ber.integer(node[1])
    if k == "enum":
        return ber.enumerated(node[1])
    if k == "bool":
        return ber.boolean(node[1])
    if k == "oct":
        return ber.octet_string(node[1])
    if k == "coct":
        return ber.prim(ber.CONTEXT, node[1], node[2])
    kids = [_ref_tree(c) for c in node[2]]
    if node[1] is None:
        return ber.sequence(kids) if k == "seq" else ber.set_of(kids)
    return ber.cons(node[1][0], node[1][1], kids)


def _lib_write(w: t.Any, node: t.Any) -> None:
    k = node[0]
    if k == "int":
        w.write_integer(node[1])
    elif k == "enum":
        w.write_enumerated(node[1])
    elif k == "bool":
        w.write_boolean(node[1])
    elif k == "oct":
        w.write_octet_string(node[1])
    elif k == "coct":
        w.write_octet_string(node[2], tag=_tag(ber.CONTEXT, node[1], False))
    else:
        tag = None if node[1] is None else _tag(node[1][0], node[1][1], True)
        push = w.push_sequence if k == "seq" else w.push_set
        with push(tag) as inner:
            for c in node[2]:
                _lib_write(inner, c)


def _lib_read(r: t.Any, node: t.Any) -> t.Any:
    k = node[0]
    if k == "int":
        return ("int", r.read_integer())
    if k == "enum":
        return ("enum", r.read_enumerated(int))
    if k == "bool":
        return ("bool", r.read_boolean())
    if k == "oct":
        return ("oct", r.read_octet_string())
    if k == "coct":
        return ("coct", node[1], r.read_octet_string(tag=_tag(ber.CONTEXT, node[1], False)))
    tag = None if node[1] is None else _tag(node[1][0], node[1][1], True)
    inner = (r.read_sequence if k == "seq" else r.read_set)(tag=tag)
    kids = [_lib_read(inner, c) for c in node[2]]
    if inner:
        raise AssertionError("inner reader not exhausted")
    return (k, node[1], kids)


def _depth(node: t.Any) -> int:
    if node[0] in ("seq", "set"):
        return 1 + max([_depth(c) for c in node[2]], default=0)
    return 0


def _norm(node: t.Any) -> t.Any:
    if node[0] in ("seq", "set"):
        return (node[0], node[1], [_norm(c) for c in node[2]])
    return tuple(node)


class TreePart(Part):
    name = "tree"
    examples = {QUICK: 500, THOROUGH: 4000}

    def strategy(self, tier: str) -> t.Any:
        return st.fixed_dictionaries({"tree": _tree(), "tail": st.binary(max_size=3)})

    def check(self, case: t.Any, ctx: Ctx) -> t.List[Violation]:
        a = _lib()
        tree, tail = case["tree"], case["tail"]
        d = _depth(tree)
        ctx.event(f"depth{min(d, 5)}")
        if d >= 2:
            ctx.nontrivial()
        expect = ber.write(_ref_tree(tree))
        out: t.List[Violation] = []
        try:
            w = a.ASN1Writer()
            _lib_write(w, tree)
            got = bytes(w.get_data())
        except Exception as e:
            return [Violation(_exc_key("tree:write", e), f"{tree!r}: {e!r}")]
        if got != expect:
            out.append(Violation("tree:write", f"{tree!r}: got {got.hex()} expected {expect.hex()}"))
        try:
            r = a.ASN1Reader(expect + tail)
            back = _lib_read(r, tree)
            rest = r.get_remaining_data()
        except Exception as e:
            out.append(Violation(_exc_key("tree:read", e), f"{tree!r} bytes {expect.hex()}: {e!r}"))
            return out
        if back != _norm(tree):
            out.append(Violation("tree:read:value", f"{tree!r}: read back {back!r}"))
        if rest != tail:
            out.append(Violation("tree:read:consumed", f"{tree!r}: remaining {rest.hex()} expected {tail.hex()}"))
        return out


class BoolOctPart(Part):
    name = "bool-octets"
    examples = {QUICK: 300, THOROUGH: 2000}
    shards = {QUICK: 4, THOROUGH: 16}

    def strategy(self, tier: str) -> t.Any:
        return st.one_of(
            st.fixed_dictionaries({"k": st.just("bool"), "octet": st.integers(0, 255), "tail": st.binary(max_size=2)}),
            st.fixed_dictionaries({"k": st.just("oct"), "v": gens.octets(big=True), "tail": st.binary(max_size=2)}),
        )

    def check(self, case: t.Any, ctx: Ctx) -> t.List[Violation]:
        a = _lib()
        out: t.List[Violation] = []
        try:
            if case["k"] == "bool":
                o = case["octet"]
                ctx.event(f"bool:{'zero' if o == 0 else 'ff' if o == 255 else 'other'}")
                if o not in (0, 255):
                    ctx.nontrivial()
                r = a.ASN1Reader(bytes([1, 1, o]) + case["tail"])
                v = r.read_boolean()
                if v is not (o != 0) or r.get_remaining_data() != case["tail"]:
                    out.append(Violation("bool:read", f"octet {o:#x}: {v!r}"))
                for b in (True, False):
                    w = a.ASN1Writer()
                    w.write_boolean(b)
                    if bytes(w.get_data()) != bytes([1, 1, 0xFF if b else 0]):
                        out.append(Violation("bool:write", f"{b}: {bytes(w.get_data()).hex()}"))
            else:
                v = case["v"]
                ctx.event(f"oct:{'ge128' if len(v) >= 128 else 'lt128'}")
                if len(v) >= 128:
                    ctx.nontrivial(("oct", len(v), v[:8]))
                w = a.ASN1Writer()
                w.write_octet_string(v)
                expect = b"\x04" + ber.length_octets(len(v)) + v
                if bytes(w.get_data()) != expect:
                    out.append(Violation("octets:write", f"len {len(v)}"))
                r = a.ASN1Reader(expect + case["tail"])
                back = r.read_octet_string()
                if back != v or type(back) is not bytes or r.get_remaining_data() != case["tail"]:
                    out.append(Violation("octets:read", f"len {len(v)}: {back[:16]!r}"))
        except Exception as e:
            out.append(Violation(_exc_key(case["k"], e), f"{case!r}: {e!r}"))
        return out


class SiblingsPart(Part):
    """peek_header + skip_value walk a run of sibling TLVs exactly (no byte beyond a value is consumed)."""

    name = "siblings"
    examples = {QUICK: 300, THOROUGH: 3000}

    def strategy(self, tier: str) -> t.Any:
        item = st.tuples(_tagspec(), st.one_of(st.binary(max_size=8), gens.sized_octets([0, 127, 128, 255, 256, 300])), st.sampled_from([0, 0, 1, 2, 4, 8, 9, 17, 126]))
        return st.lists(item, min_size=1, max_size=8)

    def check(self, case: t.Any, ctx: Ctx) -> t.List[Violation]:
        a = _lib()
        parts = []
        for (cls, number, constructed), content, lenk in case:
            form = ("long", lenk) if lenk else None
            parts.append(ber.ident_octets(cls, constructed, number) + ber.length_octets(len(content), form) + content)
        data = b"".join(parts)
        if len(case) >= 3:
            ctx.nontrivial()
        out: t.List[Violation] = []
        try:
            r = a.ASN1Reader(data)
            for i, ((cls, number, constructed), content, lenk) in enumerate(case):
                if not r:
                    out.append(Violation("siblings:reader-empty-early", f"after {i} of {len(case)} values: {data.hex()}"))
                    return out
                h = r.peek_header()
                if (int(h.tag.tag_class), int(h.tag.tag_number), h.tag.is_constructed, h.length, h.tag_length) != (
                    cls, number, constructed, len(content), len(parts[i]) - len(content)):
                    out.append(Violation("siblings:header", f"value {i} of {data.hex()}: {h!r}"))
                    return out
                if i % 2:
                    r.skip_value(h)
                else:
                    got = r.read_octet_string(header=h)
                    if got != content:
                        out.append(Violation("siblings:content", f"value {i} of {data.hex()}: {got!r}"))
                        return out
            if r:
                out.append(Violation("siblings:bytes-left", f"{r.get_remaining_data().hex()} left of {data.hex()}"))
        except Exception as e:
            out.append(Violation(_exc_key("siblings", e), f"{data.hex()}: {e!r}"))
        return out


def _selftest(tier: str, seed: int) -> None:
    # the arithmetic reference against Python's own big-int conversions, on a fixed sweep
    for v in list(range(-70000, 70000, 7)) + [2**k for k in range(0, 80)] + [-(2**k) for k in range(0, 80)]:
        c = ber.int_to_content(v)
        assert ber.content_to_int(c) == v and ber.is_minimal_int(c), v
        if len(c) > 1:
            assert ber.content_to_int(c[1:]) != v or not ber.is_minimal_int(c)
    for n in [0, 1, 127, 128, 255, 256, 65535, 65536]:
        node = ber.octet_string(b"x" * n)
        raw = ber.write(node)
        back, used = ber.read(raw)
        assert used == len(raw) and back.content == b"x" * n
    for num in [0, 30, 31, 127, 128, 16383, 16384]:
        raw = ber.write(ber.prim(ber.PRIVATE, num, b"ab"))
        back, _ = ber.read(raw)
        assert back.tag() == (ber.PRIVATE, False, num)


PROP = Property(
    id="C07",
    rule=(
        "Generated: integers biased to 2^k boundaries, negatives with low zero octets, octet patterns, plus a complete "
        "sweep of a contiguous range; content octets minimal/sign-padded/raw; tags over 4 classes x numbers incl. "
        "multi-octet; lengths at 2^7/2^8/2^16(/2^24) boundaries and declared long forms up to 8 octets; trees of "
        "sequences/sets. Oracle: int.to_bytes/from_bytes two's complement and an X.690 writer written independently. "
        "Non-trivial = negative with a low zero octet, |v| >= 2^15, padded content or >= 3 content octets, tag number "
        ">= 31, length >= 128, declared long-form length, nesting >= 2, boolean octet not in {00,FF}; distinct by value."
    ),
    parts=[IntPart(), IntSweep(), ContentPart(), TagPart(), LengthPart(), TreePart(), BoolOctPart(), SiblingsPart()],
    assumptions=[
        "UNIVERSAL tag numbers restricted to 0..36 (documented TypeTagNumber range)",
        "INTEGER content is non-empty (empty content is not BER; covered by C05)",
        "reference = vf/ber.py (written from X.690) and Python big-int arithmetic",
    ],
    selftest=_selftest,
    technique="property-based testing (Hypothesis) + exhaustive enumeration of an integer range against an arithmetic oracle",
)
