"""C08 - session lifecycle follows the documented state machine; CLOSED is final."""

from __future__ import annotations

import typing as t

from .. import history
from ..engine import Property
from ._hist import HistoryPart

CLAUSES = {"state", "call-accept", "recv-accept", "closed-absorbing", "refusal-type"}


def _nt(tr: history.Trace) -> bool:
    if tr.steps_after_closed:
        return True
    for e in tr.events:
        if e.startswith("call:") and (":BINDING:" in e or "operations in progress" in e):
            return True
    return False


class Client(HistoryPart):
    name = "client"
    side = "client"
    clauses = CLAUSES

    def nontrivial(self, tr: history.Trace) -> bool:
        return _nt(tr)


class Server(HistoryPart):
    name = "server"
    side = "server"
    clauses = CLAUSES

    def nontrivial(self, tr: history.Trace) -> bool:
        return _nt(tr)


PROP = Property(
    id="C08",
    rule=(
        "Generated: histories (lists of symbolic steps, <= 40/80) for a client (bind/search/extended/unbind calls, "
        "deliveries of 1-3 well-formed server messages with ids drawn from {open, open search, completed, never issued, "
        "0, negative}, request-type messages, notices of disconnection, garbage) and for a server (deliveries of "
        "requests with fresh/reused ids, response-type messages and unbinds, every response call x id class x result "
        "code incl. saslBindInProgress, unbind, garbage), continuing after closure and after refusals. Oracle: a "
        "reference model (vf/model.py, written from the SessionState docs, method docstrings and pinned tests) runs in "
        "lock step; after every step state, accepted/refused and the exception class must agree (LDAPError for calls, "
        "ProtocolError for deliveries); once CLOSED was observed every later step must be refused, emit nothing and "
        "leave the state CLOSED. Non-trivial = >=1 step executed after CLOSED, a call attempted while BINDING, or a "
        "bind attempted with operations in progress; distinct by step list."
    ),
    parts=[Client(), Server()],
    assumptions=[
        "NEW may become OPEN on a refused call (pinned by test_fail_server_responds_to_unknown_request); NEW and OPEN are otherwise indistinguishable",
        "not generated: a request whose id is already open on the server",
    ],
    technique="model-based (stateful) property testing: generated call/delivery histories against a reference state machine",
)
