"""C01 - every LDAP message survives encode -> decode -> re-encode."""

from __future__ import annotations

import typing as t

from hypothesis import strategies as st

from .. import absval, gens, msgcheck, twins
from ..engine import QUICK, THOROUGH, Ctx, Part, Property, Violation


def check_roundtrip(m: t.Dict[str, t.Any], tail: bytes, ctx: Ctx, x: t.Any = None) -> t.List[Violation]:
    """x: an already built (and possibly already used) library object whose projection is ``m``"""
    kind = m["kind"]
    classes = msgcheck.message_classes(m)
    for c in classes:
        ctx.event(c)
    ctx.event(f"kind:{kind}")
    if msgcheck.is_nontrivial(classes):
        ctx.nontrivial(m)
    opts = absval.default_options()
    try:
        if x is None:
            x = absval.to_lib(m)
        ax = absval.to_abstract(x)
        b = x.pack(opts)
    except Exception as e:
        return [Violation(f"pack:{kind}:{msgcheck.exc_site(e)}", f"{m!r}: {e!r}")]
    if ax != m:
        # the projection of a freshly built object must be the generated value (harness sanity)
        return [Violation(f"projection:{kind}:{msgcheck.diff_field(msgcheck.first_diff(ax, m))}", f"{ax!r} != {m!r}")]
    if type(b) is not bytes:
        return [Violation(f"pack:{kind}:not-bytes", type(b).__name__)]
    out: t.List[Violation] = []
    try:
        y, rest = absval.lib_unpack(b + tail, opts)
    except Exception as e:
        return [Violation(f"unpack:{kind}:{msgcheck.exc_site(e)}", f"{m!r} bytes {b[:200].hex()}: {e!r}")]
    ay = absval.to_abstract(y, decoded=True)
    if ay != ax:
        d = msgcheck.first_diff(ax, ay)
        out.append(Violation(f"roundtrip:{kind}:{msgcheck.diff_field(d)}", f"first difference at {d}: sent {ax!r} got {ay!r}"))
    if rest != tail:
        out.append(Violation(f"consumed:{kind}", f"remaining {rest[:40].hex()} expected {tail.hex()}"))
    try:
        b2 = y.pack(opts)
        if b2 != b:
            out.append(Violation(f"re-encode:{kind}", f"{b[:120].hex()} -> {b2[:120].hex()}"))
    except Exception as e:
        out.append(Violation(f"re-encode:{kind}:{msgcheck.exc_site(e)}", repr(e)))
    return out


class Messages(Part):
    name = "messages"
    examples = {QUICK: 1500, THOROUGH: 25000}

    def strategy(self, tier: str) -> t.Any:
        big = st.booleans() if tier == THOROUGH else st.just(False)
        return st.one_of(
            st.fixed_dictionaries({"m": gens.message(), "tail": st.binary(max_size=4)}),
            st.fixed_dictionaries({"m": gens.message(big=True), "tail": st.just(b"")}),
        )

    def check(self, case: t.Any, ctx: Ctx) -> t.List[Violation]:
        return check_roundtrip(case["m"], case["tail"], ctx)


class Twins(Part):
    """State that survives between calls (memo tables keyed on too little, identity-keyed caches, reused buffers)."""

    name = "twins"
    examples = {QUICK: 700, THOROUGH: 12000}

    def strategy(self, tier: str) -> t.Any:
        return st.fixed_dictionaries({"m": st.one_of(gens.message(), gens.message(kinds=["searchRequest"])), "mode": st.sampled_from(twins.MODES),
                                      "mask": st.one_of(st.just(0xFFFF), st.integers(0, 0xFFFF), st.sampled_from([1, 2, 4, 8, 16, 32]))})

    def check(self, case: t.Any, ctx: Ctx) -> t.List[Violation]:
        return check_twins(case, ctx, lambda m, x=None: check_roundtrip(m, b"", ctx, x), unpack=True)


def check_twins(case: t.Any, ctx: Ctx, oracle: t.Callable[..., t.List[Violation]], unpack: bool) -> t.List[Violation]:
    a = case["m"]
    b = twins.twin(a, case["mode"], case["mask"])
    ctx.event(f"twin:{case['mode']}:{'differs' if b != a else 'identical'}")
    opts = absval.default_options()
    def tag(v: Violation, label: str, what: str) -> Violation:
        # encoding deviations are labelled by where in the encoding they sit, whatever happened before
        return Violation(v.key if v.key.startswith("deviation=") else f"{label}:{v.key}", f"{what}: {v.detail}")

    if case["mode"] == "unencodable" and b != a:
        # a message with text that has no UTF-8 encoding: packing it fails (part-way through) - or, if bytes are
        # produced after all, they denote that very message; then the real message is checked
        ctx.extra_evaluations += 1
        bad = [tag(v, "unencodable-text", f"{b!r}") for v in oracle(b) if not v.key.startswith("pack:")]
        if bad:
            return bad
        ctx.event("twin-raised")
    else:
        try:
            # the twin goes first
            data = absval.to_lib(b).pack(opts)
            if unpack:
                absval.lib_unpack(data, opts)
        except Exception:
            ctx.event("twin-raised")
    out = [tag(v, "after-twin", f"after processing the twin {b!r}") for v in oracle(a)]
    if not out and b != a and case["mode"] != "unencodable":
        ctx.extra_evaluations += 1
        out = [tag(v, "after-twin", f"after processing {a!r}") for v in oracle(b)]
    if out or case["mode"] == "unencodable":
        return out
    # the object that was just packed is edited in place (its list fields take the twin's elements) and packed again
    try:
        la = absval.to_lib(a)
        la.pack(opts)
        n = twins.inplace_mix(la, absval.to_lib(b))
        mixed = absval.to_abstract(la)
    except Exception:
        ctx.event("in-place-edit-raised")
        return out
    if n and not absval.has_marker(mixed):
        ctx.event("in-place-edit")
        ctx.extra_evaluations += 1
        out = [tag(v, "after-in-place-edit", f"object packed as {a!r}, then edited in place to {mixed!r}") for v in oracle(mixed, la)]
    return out


class Boundary(Part):
    name = "boundary-sweep"
    exhaustive = True

    def enumerate(self, tier: str, shard: int, nshards: int) -> t.Iterable[t.Any]:
        sizes = gens.BOUNDARY_SIZES + ([65535, 65536] if tier == QUICK else gens.BIG_SIZES + [2**16 + 300, 2**20])
        cases = msgcheck.boundary_cases(sizes) + msgcheck.magic_cases()
        return cases[shard::nshards]

    def check(self, case: t.Any, ctx: Ctx) -> t.List[Violation]:
        ctx.event(f"size:{case['size']}")
        return check_roundtrip(case["m"], case["tail"], ctx)

    def sample(self, case: t.Any) -> t.Any:
        return {"field": case["field"], "size": case["size"]}


class FuzzDecoded(Part):
    """Coverage-guided campaign (atheris): message VALUES obtained by decoding fuzzed bytes (values no generator of
    ours would build) must round-trip too: pack(y) -> unpack -> equal projection, and re-pack reproduces the bytes."""

    name = "atheris-decoded-values"
    fuzz = True
    shards = {QUICK: 0, THOROUGH: 16}
    fuzz_runs = {QUICK: 0, THOROUGH: 400000}
    budget = {QUICK: 10.0, THOROUGH: 2400.0}

    def seed_corpus(self) -> t.List[bytes]:
        import glob
        import os

        from .. import rfc4511

        root = os.path.join(os.path.dirname(os.environ.get("VERIF_REPO_SRC", "/repo/src")), "tests", "data")
        out = []
        for f in sorted(glob.glob(os.path.join(root, "*"))):
            with open(f, "rb") as fh:
                out.append(fh.read())
        out += [rfc4511.encode(m) for m in msgcheck._templates().values()]
        return out

    def check(self, case: t.Any, ctx: Ctx) -> t.List[Violation]:
        opts = absval.default_options()
        try:
            y, _rest = absval.lib_unpack(case["data"], opts)
        except Exception:
            ctx.event("undecodable")
            return []
        ay = absval.to_abstract(y, decoded=True)
        if absval.has_marker(ay):
            return [Violation("decoded-value-ill-typed", f"{case['data'].hex()} -> {ay!r}")]
        kind = ay["kind"]
        ctx.event(f"decoded:{kind}")
        ctx.nontrivial(ay)
        try:
            b2 = y.pack(opts)
        except UnicodeEncodeError:
            return []  # cannot happen for values decoded from UTF-8; kept out of scope like lone surrogates in C01
        except Exception as e:
            return [Violation(f"decoded-value-cannot-be-packed:{kind}:{msgcheck.exc_site(e)}", f"{case['data'].hex()} -> {ay!r}: {e!r}")]
        try:
            y2, rest2 = absval.lib_unpack(b2, opts)
        except Exception as e:
            return [Violation(f"repacked-bytes-rejected:{kind}:{msgcheck.exc_site(e)}", f"{case['data'].hex()} -> {ay!r} -> {b2.hex()}: {e!r}")]
        out = []
        ay2 = absval.to_abstract(y2, decoded=True)
        if ay2 != ay:
            d = msgcheck.first_diff(ay, ay2)
            out.append(Violation(f"decoded-value-roundtrip:{kind}:{msgcheck.diff_field(d)}", f"first difference at {d}: {ay!r} -> {b2.hex()} -> {ay2!r}"))
        if rest2 != b"":
            out.append(Violation(f"consumed:{kind}", rest2[:40].hex()))
        try:
            if y2.pack(opts) != b2:
                out.append(Violation(f"re-encode:{kind}", b2[:120].hex()))
        except Exception as e:
            out.append(Violation(f"re-encode:{kind}:{msgcheck.exc_site(e)}", repr(e)))
        return out

    def sample(self, case: t.Any) -> t.Any:
        return {"data": case["data"][:100].hex(), "len": len(case["data"])}


PROP = Property(
    id="C01",
    rule=(
        "Generated: abstract messages of all 9 kinds (any controls incl. the 3 library-known ones, recursive filters of "
        "the 10 node kinds, both credential choices, ints biased to two's-complement boundaries, text/octets biased to "
        "length boundaries) packed with default PackingOptions; plus a complete sweep of every str/bytes field of every "
        "kind over the length-boundary sizes and over a list of values that code tends to special-case ('*', NUL, 'dn', known OIDs, attribute names with options, normalisation-sensitive text). Oracle: unpack gives an equal plain-data projection (enum by .value, exact "
        "types; known-control raw value ignored but must be exposed as bytes), exactly the tail remains, re-pack "
        "reproduces the bytes; part twins: a near-collision twin of the message (text leaves changed only in case / "
        "normalisation form / padding / beyond a short prefix) is packed and unpacked first, then the message is checked, "
        "then the already packed object is edited in place (list fields take the twin's elements) and checked again - "
        "state surviving between calls (memo tables keyed on too little, identity-keyed caches) shows up as a wrong "
        "round trip; thorough adds an atheris campaign on message values obtained by decoding fuzzed bytes. Non-trivial = >=1 control, a field >=128 octets, filter depth >=2, an int <0 or >=2^31, an "
        "unknown result code, or an empty-but-present optional; distinct by abstract value."
    ),
    parts=[Messages(), Boundary(), Twins(), FuzzDecoded()],
    assumptions=[
        "strings are Unicode text without lone surrogates (cannot be UTF-8 encoded)",
        "generic controls never carry a library-known OID; scope in 0..2 and derefAliases in 0..3 (the enum types)",
    ],
    technique="property-based round-trip testing (Hypothesis) + exhaustive length-boundary / magic-value sweep + near-collision twins and in-place edits + atheris campaign (thorough)",
)
