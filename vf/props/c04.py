"""C04 - the decoder accepts every valid BER form of a message, not only its own."""

from __future__ import annotations

import typing as t

from hypothesis import strategies as st

from .. import absval, gens, msgcheck, rfc4511
from ..engine import QUICK, THOROUGH, Ctx, Part, Property, Violation


class Forms(Part):
    name = "forms"
    examples = {QUICK: 1200, THOROUGH: 20000}

    def strategy(self, tier: str) -> t.Any:
        tape = st.one_of(st.lists(st.integers(0, 255), min_size=4, max_size=48), st.binary(min_size=8, max_size=64).map(list))
        kinds = st.sampled_from(
            [
                ["length", "true", "default", "trailing"],
                ["length", "true", "default", "trailing"],
                ["trailing"],
                ["trailing-any"],
                ["length-wide"],
                ["length-wide", "true", "default", "trailing-any"],
                ["length", "true", "default", "trailing-any"],
                ["length"],
                ["true", "default"],
            ]
        )
        return st.fixed_dictionaries(
            {"m": st.one_of(gens.message(), gens.message(), gens.message(kinds=["searchRequest"])), "tape": tape, "ad": st.sampled_from([False, False, False, True]), "kinds": kinds}
        )

    def check(self, case: t.Any, ctx: Ctx) -> t.List[Violation]:
        m = case["m"]
        kind = m["kind"]
        knobs = rfc4511.Knobs(case["tape"], ad_style=case["ad"], kinds=case["kinds"])
        data = rfc4511.encode(m, knobs)
        for k, n in knobs.applied.items():
            ctx.event(f"knob:{k.split('-')[0] if k.startswith('length') else k}", n)
        for k, n in knobs.trailing_at.items():
            ctx.event(f"trailing-at:{k}", n)
        ctx.event(f"kind:{kind}")
        if knobs.applied:
            ctx.nontrivial((m, data))
        opts = absval.default_options()
        where = ",".join(sorted(knobs.trailing_at)) or "-"
        try:
            y, rest = absval.lib_unpack(data, opts)
        except Exception as e:
            return [Violation(f"rejected:{kind}:{msgcheck.exc_site(e)}", f"{m!r} knobs {dict(knobs.applied)} trailing at {where} bytes {data[:200].hex()}: {e!r}")]
        out = []
        ay = absval.to_abstract(y, decoded=True)
        if ay != m:
            d = msgcheck.first_diff(m, ay)
            out.append(Violation(f"changed:{kind}:{msgcheck.diff_field(d)}", f"first difference at {d}: {m!r} decoded as {ay!r}; knobs {dict(knobs.applied)} trailing at {where}"))
        if rest != b"":
            out.append(Violation(f"consumed:{kind}", rest[:40].hex()))
        # same value as the library's own encoding decodes to
        try:
            own = absval.to_lib(m).pack(opts)
            y2, _ = absval.lib_unpack(own, opts)
            if absval.to_abstract(y2, decoded=True) != ay:
                out.append(Violation(f"differs-from-own-encoding:{kind}", f"{m!r}"))
        except Exception as e:
            out.append(Violation(f"own-encoding:{kind}:{msgcheck.exc_site(e)}", repr(e)))
        return out

    def sample(self, case: t.Any) -> t.Any:
        from .. import jsonx

        k = rfc4511.Knobs(case["tape"], ad_style=case["ad"], kinds=case["kinds"])
        data = rfc4511.encode(case["m"], k)
        return {"m": jsonx.brief(case["m"]), "knobs_applied": dict(k.applied), "bytes": data[:160].hex()}


def _selftest(tier: str, seed: int) -> None:
    from .c03 import _selftest as s

    s(tier, seed)
    # the Active Directory preset really produces 84 xx xx xx xx everywhere
    m = {"kind": "searchResDone", "id": 5, "controls": [], "result": {"code": 0, "matched": "", "diag": "", "referral": None}}
    b = rfc4511.encode(m, rfc4511.Knobs(None, ad_style=True))
    assert b == bytes.fromhex("308400000020028400000001056584000000130a840000000100048400000000048400000000"), b.hex()


PROP = Property(
    id="C04",
    rule=(
        "Generated: abstract message x a choice tape that drives the reference encoder's freedoms at every TLV node "
        "(length form minimal / long form in 1..8 octets, with 'length-wide' up to 126 octets / Active Directory's fixed 4-octet form; TRUE as any non-zero "
        "octet; DEFAULT FALSE components encoded explicitly; 0-2 unrecognised trailing elements - PRIVATE class or "
        "context-specific numbers >= 12, low and high tag form, primitive or constructed, or ('trailing-any') any "
        "universal / application / low context-specific tag except the tag of an ABSENT optional component at the end "
        "of the enclosing type - after the defined components of every fixed-component SEQUENCE, never in SEQUENCE "
        "OF/SET OF). Oracle: the library decodes the bytes to the "
        "abstract message that was encoded (same as its own minimal encoding decodes to). Non-trivial = at least one "
        "non-default knob actually applied; distinct by (message, bytes)."
    ),
    parts=[Forms()],
    assumptions=[
        "trailing elements never carry the tag of an optional component that is absent from the end of the enclosing "
        "sequence (a decoder may read such an element as that component); every other tag is used",
        "reference encoder is self-tested against the reference decoder each run",
    ],
    selftest=_selftest,
    technique="property-based metamorphic testing: one abstract message, many valid BER forms (reference encoder with knobs)",
)
