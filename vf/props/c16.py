"""C16 - schema definitions survive conversion to text and back."""

from __future__ import annotations

import typing as t

from hypothesis import strategies as st

from .. import gens, msgcheck, rfc4512, twins
from ..engine import QUICK, THOROUGH, Ctx, Part, Property, Violation


def _texts(f: t.Dict[str, t.Any]) -> t.Iterator[str]:
    if f.get("description") is not None:
        yield f["description"]
    for vals in f["extensions"].values():
        yield from vals


def check_fields(kind: str, f: t.Dict[str, t.Any], ctx: Ctx) -> t.List[Violation]:
    ctx.event(f"type:{kind}")
    nt = False
    for s in _texts(f):
        if any((not ch.isalnum()) and ord(ch) < 128 for ch in s):
            nt = True
        for ch in "'\\|":
            if ch in s:
                ctx.event(f"text-with:{ch}")
        if any(ord(ch) > 127 for ch in s):
            ctx.event("text-with:non-ascii")
    if any(len(v) != 1 for v in f["extensions"].values()):
        nt = True
        ctx.event("multi-or-empty-valued-extension")
    for k in ("super_types", "must", "may", "aux", "never"):
        if len(f.get(k) or []) >= 2:
            nt = True
            ctx.event("oid-list>=2")
            break
    if nt:
        ctx.nontrivial((kind, f))
    try:
        obj = rfc4512.from_fields(kind, f)
        text = str(obj)
    except Exception as e:
        return [Violation(f"str:{type(e).__name__}", f"{kind} {f!r}: {e!r}")]
    try:
        twins.poison_parser(rfc4512.lib_class(kind).from_string, text)
        back = rfc4512.lib_class(kind).from_string(text)
    except Exception as e:
        which = _culprit(f)
        return [Violation(f"own-text-rejected:{type(e).__name__}:{which}", f"{kind} {f!r} -> {text!r}: {e!r}")]
    fb = rfc4512.to_fields(back)
    if fb != f:
        d = msgcheck.first_diff(f, fb)
        return [Violation(f"round-trip-differs:{kind}:{(d or '').split('.')[0].split('[')[0]}", f"first difference at {d}: {f!r} -> {text!r} -> {fb!r}")]
    return []


def _culprit(f: t.Dict[str, t.Any]) -> str:
    for s in _texts(f):
        if "|" in s:
            return "text-with-vertical-bar"
    return "other"


class Definitions(Part):
    name = "definitions"
    examples = {QUICK: 700, THOROUGH: 30000}

    def strategy(self, tier: str) -> t.Any:
        return st.one_of(*[st.tuples(st.just(k), rfc4512.fields(k)) for k in rfc4512.KINDS])

    def check(self, case: t.Any, ctx: Ctx) -> t.List[Violation]:
        return check_fields(case[0], case[1], ctx)

    def sample(self, case: t.Any) -> t.Any:
        from .. import jsonx

        try:
            return {"kind": case[0], "fields": jsonx.brief(case[1]), "text": str(rfc4512.from_fields(case[0], case[1]))[:300]}
        except Exception:
            return {"kind": case[0], "fields": jsonx.brief(case[1])}


class EveryChar(Part):
    """Every Latin-1 character and every boundary code point (gens.BOUNDARY_CHARS) alone and embedded, in DESC and in an extension value (enumerated)."""

    name = "every-char"
    exhaustive = True
    shards = {QUICK: 4, THOROUGH: 4}

    def enumerate(self, tier: str, shard: int, nshards: int) -> t.Iterable[t.Any]:
        k = 0
        chars = [chr(c) for c in range(0, 128)] + ["é", "€", "\U0001f600", " ", "\x85", "\xa0"]
        for ch in chars:
            for text in (ch, f"a{ch}b", f"{ch}{ch}", f" {ch} "):
                for kind in rfc4512.KINDS:
                    f = rfc4512.defaults(kind)
                    f["oid"] = "1.2.3"
                    f["description"] = text
                    f["extensions"] = {"KEY": [text], "K-_b": [text, "x"]}
                    if k % nshards == shard:
                        yield (kind, f)
                    k += 1

    def check(self, case: t.Any, ctx: Ctx) -> t.List[Violation]:
        return check_fields(case[0], case[1], ctx)

    def sample(self, case: t.Any) -> t.Any:
        return {"kind": case[0], "description": case[1]["description"]}


def _selftest(tier: str, seed: int) -> None:
    import hypothesis
    from hypothesis import given, settings, HealthCheck

    @hypothesis.seed(seed)
    @settings(max_examples=120, database=None, deadline=None, suppress_health_check=list(HealthCheck))
    @given(st.sampled_from(rfc4512.KINDS).flatmap(lambda k: rfc4512.sentence(k)))
    def run(s: t.Any) -> None:
        assert rfc4512.parse(s["kind"], s["text"]) == s["fields"], s["text"]

    run()
    f = rfc4512.parse("attributetype", "( 2.5.4.3 NAME ( 'cn' 'commonName' ) DESC 'RFC4519: it\\27s a \\5Cname' SUP name SYNTAX 1.3.6.1.4.1.1466.115.121.1.15{64} SINGLE-VALUE USAGE dSAOperation X-ORIGIN 'RFC 4519' X-ORDERED ( 'a' 'b' ) )")
    assert f["names"] == ["cn", "commonName"] and f["description"] == "RFC4519: it's a \\name" and f["syntax_length"] == 64
    assert f["usage"] == "dSAOperation" and f["extensions"] == {"ORIGIN": ["RFC 4519"], "ORDERED": ["a", "b"]} and f["single_value"]
    for bad in ["( 1 )", "( 1.2 NAME cn )", "( 1.2 DESC '' )", "( 1.2 DESC 'a'b' )", "(1.2 X- 'a' )", "( 1.2 SUP ( a b ) )", "( 1.2", "( 1.2 ) x", "( 01.2 )"]:
        try:
            rfc4512.parse("objectclass", bad)
        except rfc4512.RefSchemaError:
            continue
        raise AssertionError(bad)


PROP = Property(
    id="C16",
    rule=(
        "Generated: ObjectClassDescription / AttributeTypeDescription / DITContentRuleDescription objects whose fields "
        "are valid per RFC 4512 by construction (numeric OID >= 2 arcs, descriptor names, OID lists of length 0-4, "
        "description None or any non-empty Unicode text biased to ' \\ | $ ( ) { } space newline X- and keywords, all "
        "flags, every kind/usage, syntax with/without length, extensions with distinct keys from [A-Za-z_-]+ and 0-3 "
        "non-empty values); plus every ASCII character (and some non-ASCII) alone/embedded in DESC and extension values "
        "(enumerated). Oracle: T.from_string(str(x)) equals x field by field (enums by value). Non-trivial = a "
        "description/extension value with a non-alphanumeric ASCII character, a multi/empty-valued extension, or an OID "
        "list of length >= 2; distinct by (type, fields)."
    ),
    parts=[Definitions(), EveryChar()],
    assumptions=["syntax_length only with a syntax; description and extension values non-empty (RFC 4512 dstring = 1*...)"],
    selftest=_selftest,
    technique="property-based round-trip testing of schema definitions + exhaustive single-character sweep",
)
