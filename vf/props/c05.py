"""C05 - receiving arbitrary bytes either yields messages or fails closed."""

from __future__ import annotations

import typing as t

from hypothesis import strategies as st

from .. import absval, ber, gens, msgcheck, mutate, rfc4511, sess
from ..engine import QUICK, THOROUGH, Ctx, Part, Property, Violation
from .c02 import wrap

_NOTICE = rfc4511.OID_NOTICE_OF_DISCONNECTION

# ---------------------------------------------------------------------------------------- generation

_PREPS_CLIENT = [
    [],
    [("search",)],
    [("search",), ("extended",), ("search",)],
    [("extended",)],
    [("bind", "simple")],
    [("bind", "sasl")],
    # prior histories that contain REFUSED calls (bookkeeping must not be left half-updated)
    [("bind", "simple"), ("try", ("search",)), ("try", ("extended",))],
    [("search",), ("try", ("bind", "simple")), ("try", ("search",))],
    [("try", ("search",)), ("extended",)],
]
_PREPS_SERVER = _PREPS_CLIENT


def mutation() -> t.Any:
    return st.fixed_dictionaries(
        {
            "node": st.integers(0, 400),
            "op": st.sampled_from(mutate.OPS),
            "arg": st.integers(0, 1000),
            "repair": st.booleans(),
            "rnd": st.binary(max_size=12),
        }
    )


def _leading_like_message() -> t.Any:
    @st.composite
    def build(draw: t.Any) -> bytes:
        rest = draw(st.binary(max_size=40))
        app = draw(st.sampled_from([0x60, 0x61, 0x42, 0x62, 0x63, 0x64, 0x65, 0x73, 0x77, 0x78, 0x66, 0x7F, 0x30, 0xA0]))
        mid = draw(st.sampled_from([b"\x02\x01\x01", b"\x02\x01\x00", b"\x02\x00", b"\x02\x02\x00\x80", b"\x02\x81\x01\x05", b"\x0a\x01\x01"]))
        body = mid + bytes([app]) + draw(st.sampled_from([bytes([len(rest)]), b"\x00", b"\x81" + bytes([len(rest)]), b"\x80", b"\x7f"])) + rest
        ln = draw(st.sampled_from(["ok", "ok", "ok", "short", "long"]))
        n = len(body) if ln == "ok" else max(0, len(body) - 1) if ln == "short" else len(body) + 3
        return b"\x30" + ber.length_octets(n) + body

    return build()


@st.composite
def unit(draw: t.Any, side: str, nprep: int) -> t.Any:
    kind = draw(st.sampled_from(["mut", "mut", "mut", "mut", "valid", "rand", "like", "deep", "trunc", "zero-prim", "terminator"]))
    if kind == "terminator":
        # the designed terminations with generated content: a notice of disconnection (any result, any length of
        # diagnostic text) or an unbind, sent to either side - as they are, or with 1-2 single-node mutations
        m = draw(gens.memo("c05.terminator", lambda: st.one_of(
            gens.message(kinds=["extendedResp"], ids=st.integers(0, 3)).map(lambda m: dict(m, name=_NOTICE)),
            gens.message(kinds=["unbindRequest"], ids=st.integers(0, 3)))))
        if draw(st.booleans()):
            return ("valid", m, None)
        return ("mut", m, None, False, draw(gens.memo("c05.muts", lambda: st.lists(mutation(), min_size=1, max_size=2))))
    if kind == "rand":
        return ("rand", draw(st.binary(max_size=48)))
    if kind == "like":
        return ("rand", draw(gens.memo("c05.like", _leading_like_message)))
    if kind == "deep":
        return ("deep", draw(st.sampled_from([10, 40, 100, 200, 330, 500, 1000, 2500, 5000])), draw(st.integers(0, 3)))
    rid = draw(st.integers(0, nprep)) if nprep and draw(st.integers(0, 3)) else None  # nprep itself = the next, never issued id
    if kind == "valid":
        if side == "server":
            m = draw(gens.memo("c05.valid.server", lambda: gens.message(kinds=["searchRequest", "extendedReq"], filt=gens.filters(max_leaves=3), ids=st.integers(100, 400))))
        else:
            m = draw(gens.memo("c05.valid.client", lambda: gens.message(kinds=["searchResEntry", "searchResRef", "searchResDone", "extendedResp", "bindResponse"],
                                  ids=st.integers(0, 6))))
        return ("valid", m, rid)
    m = draw(gens.memo("c05.any", lambda: gens.message(filt=st.one_of(gens.filters(max_leaves=5), gens.deep_filter((3, 12))), ids=st.integers(0, 400))))
    libenc = draw(st.booleans())
    if kind == "trunc":
        return ("trunc", m, rid, libenc, draw(st.integers(0, 10**6)))
    if kind == "zero-prim":
        # zero-length content at a primitive node (length repaired so that the envelope stays well formed)
        return ("mut", m, rid, libenc, [{"node": draw(st.integers(0, 400)), "op": "empty", "arg": 0, "repair": True, "rnd": b""}])
    return ("mut", m, rid, libenc, draw(gens.memo("c05.muts", lambda: st.lists(mutation(), min_size=1, max_size=2))))


@st.composite
def case(draw: t.Any) -> t.Dict[str, t.Any]:
    side = draw(st.sampled_from(["client", "server"]))
    prep = draw(st.sampled_from(_PREPS_CLIENT if side == "client" else _PREPS_SERVER))
    units = draw(st.lists(unit(side, len(prep)), min_size=1, max_size=3))
    mode = draw(st.sampled_from(["one", "one", "cuts", "cuts", "bytes"]))
    return {
        "side": side,
        "prep": prep,
        "units": units,
        "mode": mode,
        "cuts": draw(st.lists(st.integers(0, 10**6), min_size=1, max_size=8)) if mode == "cuts" else [],
        "containers": draw(st.lists(st.sampled_from([0, 1, 2]), min_size=1, max_size=4)),
    }


# ---------------------------------------------------------------------------------------- execution


def unit_bytes(u: t.Any, ids: t.List[int]) -> t.Tuple[bytes, str]:
    k = u[0]
    if k == "rand":
        return u[1], "random"
    if k == "deep":
        if u[2] == 3:
            return mutate.deep_sequence(u[1]), "deep-sequence"
        return mutate.deep_not_search_request(u[1], mid=77, kind=u[2]), "deep-filter"
    m = dict(u[1])
    rid = u[2]
    if rid is not None and rid < len(ids):
        m["id"] = ids[rid]
    elif rid is not None and ids:
        m["id"] = max(ids) + 1  # the id a refused call would have used
    if k == "valid":
        return rfc4511.encode(m), "valid"
    libenc = u[3]
    data = absval.to_lib(m).pack(absval.default_options()) if libenc else rfc4511.encode(m)
    if k == "trunc":
        return data[: u[4] % (len(data) + 1)], "truncated"
    label = []
    for mut in u[4]:
        data, info = mutate.apply(data, mut)
        label.append(f"{info['op']}{'+repair' if info.get('repair') else ''}")
    return data, "mut:" + ",".join(label)


def past_envelope(data: bytes) -> bool:
    try:
        cls, cons, num, hl, length, _t, _l = ber.read_header(data, 0)
        if (cls, cons, num) != (0, True, 16) or length is None:
            return False
        c2, k2, n2, hl2, l2, _t2, _l2 = ber.read_header(data, hl)
        return (c2, k2, n2) == (0, False, 2) and l2 is not None and l2 >= 1 and hl + hl2 + l2 <= len(data)
    except ber.BerError:
        return False


def check_response(side: str, resp: t.Any) -> t.List[Violation]:
    if resp is None:
        return []
    if type(resp) is not bytes:
        return [Violation(f"{side}:response:not-bytes", type(resp).__name__)]
    try:
        m, devs = rfc4511.decode(resp)
    except rfc4511.DecodeError as e:
        return [Violation(f"{side}:response:undecodable={e.code} path={e.path}", resp.hex())]
    out = [Violation(f"{side}:response:deviation={d.code} path={d.path}", resp.hex()) for d in devs]
    if side == "server":
        if not rfc4511.is_notice_of_disconnection(m):
            out.append(Violation("server:response:not-a-notice-of-disconnection", repr(m)))
    else:
        if not (m["kind"] == "unbindRequest" and m["id"] == 0):
            out.append(Violation("client:response:not-an-unbind", repr(m)))
    return out


def check_case(c: t.Dict[str, t.Any], ctx: Ctx) -> t.List[Violation]:
    from sansldap import LDAPMessage

    LDAPError, ProtocolError = sess.errors()
    side = c["side"]
    s, ids = sess.prepare(side, c["prep"])
    parts = []
    labels = []
    for u in c["units"]:
        b, lab = unit_bytes(u, ids)
        parts.append(b)
        labels.append(lab)
    stream = b"".join(parts)
    for lab in labels:
        for piece in lab.replace("mut:", "").split(","):
            ctx.event(f"unit:{piece}")
    ctx.event(f"side:{side}:prior:{sess.state(s)}")
    n = len(stream)
    if c["mode"] == "one" or n == 0:
        cuts: t.List[int] = []
    elif c["mode"] == "bytes":
        cuts = list(range(1, min(n, 400)))
    else:
        cuts = sorted(x % (n + 1) for x in c["cuts"])
    out: t.List[Violation] = []
    got = 0
    failed: t.Optional[BaseException] = None
    for i, ch in enumerate(gens.apply_cuts(stream, cuts)):
        obj, _back = wrap(ch, c["containers"][i % len(c["containers"])])
        try:
            r = s.receive(obj)
        except ProtocolError as e:
            failed = e
            break
        except BaseException as e:
            ctx.event("outcome:escaped")
            st_after = sess.state(s)
            return [Violation(f"escaped:{msgcheck.exc_site(e, innermost=True)}",
                              f"units {labels} prior {c['prep']} stream {stream[:160].hex()}{'...' if n > 160 else ''} ({n} bytes) cuts {cuts[:20]}: {e!r}; state afterwards {st_after}")]
        if type(r) is not list or not all(isinstance(m, LDAPMessage) for m in r):
            out.append(Violation(f"{side}:returned-not-a-message-list", repr(r)[:200]))
            return out
        got += len(r)
    if past_envelope(stream) or got > 0:
        ctx.nontrivial((side, tuple(map(tuple, c["prep"])), stream, tuple(cuts)))
    if failed is None:
        ctx.event("outcome:messages-only" if got else "outcome:nothing-yet")
        return out
    ctx.event("outcome:protocol-error" + ("-after-messages" if got else ""))
    if sess.state(s) != "CLOSED":
        out.append(Violation(f"{side}:not-closed-after-protocol-error", f"state {sess.state(s)} after {failed!r}; stream {stream[:120].hex()}"))
    for probe in (b"", b"\x30\x00", rfc4511.encode({"kind": "unbindRequest", "id": 0, "controls": []})):
        try:
            s.receive(probe)
        except ProtocolError:
            pass
        except BaseException as e:
            out.append(Violation(f"after-error:escaped:{msgcheck.exc_site(e, innermost=True)}", repr(e)))
        else:
            out.append(Violation(f"{side}:accepts-input-after-protocol-error", f"receive({probe.hex()!r}) returned normally"))
        if sess.state(s) != "CLOSED":
            out.append(Violation(f"{side}:left-closed-state", sess.state(s)))
    out.extend(check_response(side, failed.response))
    req = failed.request
    if req is not None and not isinstance(req, LDAPMessage):
        out.append(Violation(f"{side}:error-request-not-a-message", repr(req)[:100]))
    return out


class Inputs(Part):
    name = "inputs"
    examples = {QUICK: 1500, THOROUGH: 40000}

    def strategy(self, tier: str) -> t.Any:
        return case()

    def check(self, c: t.Any, ctx: Ctx) -> t.List[Violation]:
        return check_case(c, ctx)

    def sample(self, c: t.Any) -> t.Any:
        try:
            _s, ids = sess.prepare(c["side"], c["prep"])
            bs = [unit_bytes(u, ids) for u in c["units"]]
            return {"side": c["side"], "prior": c["prep"], "units": [lab for _b, lab in bs],
                    "stream": b"".join(b for b, _ in bs)[:120].hex(), "mode": c["mode"]}
        except Exception:
            return {"side": c["side"]}


class EveryNodeEmpty(Part):
    """Zero-length content at every primitive node, and truncation at every offset, of one message per kind
    (finite, enumerated)."""

    name = "every-node"
    exhaustive = True

    def enumerate(self, tier: str, shard: int, nshards: int) -> t.Iterable[t.Any]:
        k = 0
        templates = dict(msgcheck._templates())
        res = {"code": 52, "matched": "dc=x", "diag": "going down \u00e9", "referral": ["ldap://other"]}
        templates["notice"] = {"kind": "extendedResp", "id": 0, "controls": [], "result": res, "name": _NOTICE, "value": b"v"}
        templates["notice/long"] = {"kind": "extendedResp", "id": 0, "controls": [("generic", "1.2", True, b"c")],
                                    "result": dict(res, diag="x" + "\u20ac" * 60), "name": _NOTICE, "value": None}
        templates["unbind/ctrl"] = {"kind": "unbindRequest", "id": 0, "controls": [("paged", True, 3, b"ck")]}
        # the same control type / attribute name / value twice in one message
        templates["repeated"] = {"kind": "searchResEntry", "id": 1, "controls": [("generic", "1.2.3.4", False, b"v"), ("generic", "1.2.3.4", True, None)],
                                 "name": "cn=r", "attributes": [("cn", [b"same", b"same"]), ("cn", [b"x"])]}
        templates["repeated/request"] = {"kind": "extendedReq", "id": 1, "controls": [("generic", "1.2.3.4", False, None), ("generic", "1.2.3.4", False, None)],
                                         "name": "1.2.3.4", "value": b"1.2.3.4"}
        for tname, m in templates.items():
            data = rfc4511.encode(m)
            nodes = mutate.index_nodes(data)
            for side in ("client", "server"):
                for i in range(len(nodes)):
                    ops = ([(op, 0) for op in ("empty", "len+1", "len-1", "constructed", "delete")] + [("bad-utf8", a) for a in range(8)]
                           + [("bad-utf8-same", a) for a in (0, 1, 2)])
                    for op, arg in ops:
                        for repair in (True, False):
                            if k % nshards == shard:
                                yield {"side": side, "prep": [("search",)], "mode": "one", "cuts": [], "containers": [0],
                                       "units": [("mut", m, 0 if side == "client" else None, False,
                                                  [{"node": i, "op": op, "arg": arg, "repair": repair, "rnd": b""}])]}
                            k += 1
                for at in range(len(data) + 1):
                    if k % nshards == shard:
                        yield {"side": side, "prep": [], "mode": "one", "cuts": [], "containers": [0],
                               "units": [("trunc", m, None, False, at), ("rand", b"\x30\x03\x02\x01")]}
                    k += 1

    def check(self, c: t.Any, ctx: Ctx) -> t.List[Violation]:
        return check_case(c, ctx)

    def sample(self, c: t.Any) -> t.Any:
        return Inputs().sample(c)


class FuzzReceive(Part):
    """Coverage-guided campaign (atheris/libFuzzer) on receive; the oracle of this module is inside the target.

    input = selector octet (side, prior history) + chunking octet + 2 cut octets + payload."""

    name = "atheris-receive"
    fuzz = True
    shards = {QUICK: 0, THOROUGH: 16}
    fuzz_runs = {QUICK: 0, THOROUGH: 400000}
    budget = {QUICK: 10.0, THOROUGH: 2400.0}

    def seed_corpus(self) -> t.List[bytes]:
        import glob
        import os

        seeds = []
        root = os.path.join(os.path.dirname(os.environ.get("VERIF_REPO_SRC", "/repo/src")), "tests", "data")
        payloads = []
        for f in sorted(glob.glob(os.path.join(root, "*"))):
            with open(f, "rb") as fh:
                payloads.append(fh.read())
        for m in msgcheck._templates().values():
            payloads.append(rfc4511.encode(m))
        for i, pl in enumerate(payloads):
            seeds.append(bytes([i % 24, 0, 0, 0]) + pl)
        return seeds

    def decode(self, data: bytes) -> t.Dict[str, t.Any]:
        b = data + b"\x00\x00\x00\x00"
        side = "client" if b[0] & 1 else "server"
        preps = _PREPS_CLIENT
        prep = preps[(b[0] >> 1) % len(preps)]
        mode = ["one", "one", "cuts", "bytes"][b[1] & 3]
        return {"side": side, "prep": prep, "units": [("rand", bytes(data[4:]))], "mode": mode, "cuts": [b[2] * 3, b[2] * 3 + b[3]],
                "containers": [b[1] >> 2 & 3 if (b[1] >> 2 & 3) < 3 else 0]}

    def check(self, case: t.Any, ctx: Ctx) -> t.List[Violation]:
        return check_case(self.decode(case["data"]), ctx)

    def sample(self, case: t.Any) -> t.Any:
        return {"data": case["data"][:80].hex(), "len": len(case["data"])}


PROP = Property(
    id="C05",
    rule=(
        "Generated: streams of 1-3 units - random bytes, bytes shaped like an LDAPMessage prefix, valid messages of "
        "any kind with 1-2 single-node TLV mutations (length +-1/+-k/0/huge/padded, tag class/number/constructed flip, "
        "universal tag numbers > 36, non-minimal high-tag form, truncate/empty/random content, delete/duplicate/swap/"
        "wrap node, indefinite length, appended junk; ancestor lengths repaired or not), truncations, zero-length "
        "primitives, filters/sequences nested 10..5000 deep - delivered in one piece, byte-wise or at generated cuts "
        "(bytes/bytearray/memoryview) to a client or server with a prior history (fresh, operations in progress, "
        "binding, refused calls before); plus an enumerated sweep over every node x {empty, len+-1, constructed flip, delete, 8 "
        "kinds of invalid UTF-8} and every truncation offset of one message per kind and of the designed terminations. Oracle: every receive returns a list of LDAPMessage or raises "
        "ProtocolError; afterwards state is CLOSED, further receive calls raise ProtocolError, and the attached "
        "response strictly reference-decodes to a notice of disconnection (server) / UnbindRequest id 0 (client). "
        "Non-trivial = input got past the envelope (complete SEQUENCE header + message id) or yielded >=1 message "
        "before failing; distinct by (side, prior, stream, cuts)."
    ),
    parts=[Inputs(), EveryNodeEmpty(), FuzzReceive()],
    assumptions=["a ProtocolError raised for session-logic reasons (unknown id, request sent to a client) is an allowed outcome"],
    technique="property-based fuzzing with structure-aware TLV mutation (Hypothesis) + enumerated single-node corruption sweep; atheris campaign in the thorough tier",
)
