"""C17 - schema text is parsed as RFC 4512 defines it."""

from __future__ import annotations

import typing as t

from hypothesis import strategies as st

from .. import gens, msgcheck, rfc4512, twins
from ..engine import QUICK, THOROUGH, Ctx, Part, Property, Violation
from .c16 import _selftest


class Sentences(Part):
    name = "sentences"
    examples = {QUICK: 800, THOROUGH: 30000}

    def strategy(self, tier: str) -> t.Any:
        return st.one_of(*[rfc4512.sentence(k) for k in rfc4512.KINDS])

    def check(self, s: t.Any, ctx: Ctx) -> t.List[Violation]:
        kind, text, want, stats = s["kind"], s["text"], s["fields"], s["stats"]
        ctx.event(f"type:{kind}")
        for k, v in stats.items():
            if v:
                ctx.event(k)
        if stats["wide-spacing"] and (stats["extensions"] or stats["paren-list"]):
            ctx.nontrivial(text)
        ref = rfc4512.parse(kind, text)
        if ref != want:
            raise AssertionError(f"harness: derivation and reference parser disagree on {text!r}")
        twins.poison_parser(rfc4512.lib_class(kind).from_string, text)
        try:
            obj = rfc4512.lib_class(kind).from_string(text)
        except Exception as e:
            return [Violation(f"sentence-rejected:{type(e).__name__}:{_feature(s)}", f"{kind} {text!r}: {e!r}")]
        got = rfc4512.to_fields(obj)
        if got != want:
            d = msgcheck.first_diff(want, got)
            return [Violation(f"parsed-fields-differ:{(d or '').split('.')[0].split('[')[0]}", f"first difference at {d}: {text!r} denotes {want!r}, parsed as {got!r}")]
        return []

    def sample(self, s: t.Any) -> t.Any:
        return {"kind": s["kind"], "text": s["text"][:400]}


def _feature(s: t.Dict[str, t.Any]) -> str:
    return "with-extensions" if s["stats"]["extensions"] else "no-extensions"


_ALPHA = st.one_of(
    st.sampled_from(list("()'$\\{} ")),
    st.sampled_from(list("()'$\\{} .-_XxNAMEDSCUPYT0123456789abc\n\t")),
    st.characters(exclude_categories=["Cs"]),
)


class Totality(Part):
    """Arbitrary text and single-character edits of sentences: a description object or ValueError, nothing else."""

    name = "totality"
    examples = {QUICK: 800, THOROUGH: 30000}

    def strategy(self, tier: str) -> t.Any:
        free = st.tuples(st.sampled_from(["( 1.2", "(1.2.3 ", "( 0.1 NAME ", "", "( 1.2 DESC '", "( 1.2 X-A "]), st.text(_ALPHA, max_size=30),
                         st.sampled_from([" )", ")", "", "' )"])).map("".join)
        edit = st.fixed_dictionaries({"s": st.one_of(*[rfc4512.sentence(k) for k in rfc4512.KINDS]),
                                      "edits": st.lists(st.tuples(st.sampled_from(["ins", "del", "rep"]), st.integers(0, 10**6),
                                                                  st.sampled_from(list("()'$\\{} X-a0.\n|"))), min_size=1, max_size=2)})
        return st.one_of(st.fixed_dictionaries({"kind": st.sampled_from(rfc4512.KINDS), "text": free}), edit)

    def check(self, c: t.Any, ctx: Ctx) -> t.List[Violation]:
        if "s" in c:
            kind, text = c["s"]["kind"], c["s"]["text"]
            for op, pos, ch in c["edits"]:
                if op == "ins":
                    p = pos % (len(text) + 1)
                    text = text[:p] + ch + text[p:]
                elif text:
                    p = pos % len(text)
                    text = text[:p] + (ch if op == "rep" else "") + text[p + 1 :]
            ctx.event("edited-sentence")
        else:
            kind, text = c["kind"], c["text"]
            ctx.event("free-text")
        if len(text) > 120:
            # keep clear of the exponential region of C18 (checked there); totality is about exception types
            text = text[:120]
        if text.lstrip("( ").startswith(("1.", "0.", "2.")):
            ctx.nontrivial(text)
        try:
            obj = rfc4512.lib_class(kind).from_string(text)
        except ValueError:
            ctx.event("outcome:ValueError")
            return []
        except BaseException as e:
            return [Violation(f"escaped:{msgcheck.exc_site(e, innermost=True)}", f"{kind}.from_string({text!r}) raised {e!r}")]
        ctx.event("outcome:accepted")
        if type(obj) is not rfc4512.lib_class(kind):
            return [Violation("returned-not-a-definition", repr(obj)[:100])]
        return []

    def sample(self, c: t.Any) -> t.Any:
        if "s" in c:
            return {"sentence": c["s"]["text"][:200], "edits": [list(e) for e in c["edits"]]}
        return c


class FuzzSchema(Part):
    """Coverage-guided campaign (atheris/libFuzzer) on the three from_string parsers (totality clause).
    Most of the work is inside C-level regular expressions, so coverage feedback is weak; inputs are capped at
    120 characters like the other totality inputs."""

    name = "atheris-schema"
    fuzz = True
    shards = {QUICK: 0, THOROUGH: 8}
    fuzz_runs = {QUICK: 0, THOROUGH: 300000}
    fuzz_max_len = 160
    budget = {QUICK: 10.0, THOROUGH: 2400.0}

    def seed_corpus(self) -> t.List[bytes]:
        return [b"\x00( 2.5.6.6 NAME 'person' DESC 'a \\27person\\27' SUP top STRUCTURAL MUST ( sn $ cn ) MAY x X-ORIGIN 'RFC 4519' )",
                b"\x01( 2.5.4.3 NAME ( 'cn' 'commonName' ) SUP name SYNTAX 1.3.6.1.4.1.1466.115.121.1.15{64} SINGLE-VALUE USAGE dSAOperation X-A ( 'a' 'b' ) )",
                b"\x02( 2.5.6.4 NAME 'x' AUX ( a $ b ) MUST c MAY d NOT ( e $ f ) )"]

    def check(self, case: t.Any, ctx: Ctx) -> t.List[Violation]:
        data = case["data"] or b"\x00"
        kind = rfc4512.KINDS[data[0] % 3]
        text = data[1:].decode("utf-8", "surrogateescape")
        return Totality().check({"kind": kind, "text": text}, ctx)

    def sample(self, case: t.Any) -> t.Any:
        return case["data"][:120].decode("utf-8", "surrogateescape")


PROP = Property(
    id="C17",
    rule=(
        "Generated: sentences of the three RFC 4512 description grammars (upper-case keywords, WSP/SP drawn as 0-3/1-3 "
        "spaces at every position the grammar has one, qdescrs/oids/qdstrings in single and parenthesised form incl. "
        "the empty parenthesised list, \\27 \\5c \\5C escapes, 0-4 extensions with X-/x-, noidlen, Active Directory's "
        "quoted SYNTAX) returned together with the fields the derivation denotes and cross-checked by an independent "
        "reference parser on every case. Oracle: from_string(text) succeeds and agrees on every field. Totality clause: "
        "arbitrary text and 1-2 single-character edits of sentences give a definition or ValueError, nothing else. "
        "Non-trivial = a sentence that uses more than minimum spacing somewhere and has >=1 extension or parenthesised "
        "list (totality: text starting like '( numericoid'); distinct by text."
    ),
    parts=[Sentences(), Totality(), FuzzSchema()],
    assumptions=["extension keys distinct after removing the X-/x- prefix; totality inputs truncated to 120 characters (cost is C18's subject)"],
    selftest=_selftest,
    technique="grammar-based sentence generation with derivation-denoted fields + independent RFC 4512 reference parser; text fuzzing for totality",
)
