"""Shared part class for the model lock-step properties (C08, C09, C10)."""

from __future__ import annotations

import typing as t

from .. import gens, history
from ..engine import QUICK, THOROUGH, Ctx, Part, Violation


class HistoryPart(Part):
    side = "client"
    clauses: t.Set[str] = set()
    steps = {QUICK: 40, THOROUGH: 80}
    pending = False
    examples = {QUICK: 400, THOROUGH: 15000}

    def strategy(self, tier: str) -> t.Any:
        n = self.steps[tier]
        if self.side == "client":
            return gens.memo(f"hist.client.{n}", lambda: history.client_steps(n))
        return gens.memo(f"hist.server.{n}", lambda: history.server_steps(n))

    def nontrivial(self, tr: history.Trace) -> bool:
        raise NotImplementedError

    def extra(self, tr: history.Trace, ctx: Ctx) -> t.List[Violation]:
        return []

    def check(self, case: t.Any, ctx: Ctx) -> t.List[Violation]:
        tr = history.run_lockstep(self.side, case, pending=self.pending)
        for e in set(tr.events):
            ctx.event(e)
        ctx.event("histories")
        ctx.event("steps", tr.steps_run)
        ctx.event("steps-after-CLOSED", tr.steps_after_closed)
        ctx.event("refused-calls", tr.refused_calls)
        if tr.steps_after_closed:
            ctx.event("history-with-steps-after-CLOSED")
        if self.nontrivial(tr):
            ctx.nontrivial(repr(case))
        out = []
        seen = set()
        for f in tr.findings:
            if f.clause in self.clauses and f.key not in seen:
                seen.add(f.key)
                out.append(Violation(f.key, f.detail))
        out.extend(self.extra(tr, ctx))
        return out

    def sample(self, case: t.Any) -> t.Any:
        from .. import jsonx

        return {"side": self.side, "steps": jsonx.brief(case[:12]), "n_steps": len(case)}
