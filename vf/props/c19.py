"""C19 - sessions are isolated; custom types take effect per session only."""

from __future__ import annotations

import copy
import itertools
import typing as t

from hypothesis import strategies as st

from .. import absval, custom, gens, history, msgcheck, rfc4511, sess
from ..engine import QUICK, THOROUGH, Ctx, Part, Property, Violation

_V = st.integers(0, 11)


def script(side: str, max_steps: int) -> t.Any:
    W = history._weighted
    base = history.client_steps(max_steps, drains=False) if side == "client" else history.server_steps(max_steps, drains=False)
    variant = "A" if side == "client" else "B"
    register = st.fixed_dictionaries({"op": st.just("register"), "what": st.sampled_from(["control", "filter", "auth"]),
                                      "variant": st.sampled_from(["A", "B"])})
    recv_custom = st.fixed_dictionaries({"op": st.just("recv-custom"), "what": st.sampled_from(["control", "filter", "auth"]), "v": _V})
    extra = [(3, register), (3, recv_custom)]
    if side == "client":
        extra.append((2, st.fixed_dictionaries({"op": st.just("call-custom"), "what": st.sampled_from(["control", "filter", "auth"]), "v": _V})))
    ins = st.lists(st.tuples(st.integers(0, 60), W(extra)), min_size=1, max_size=6)

    def merge(x: t.Any) -> t.Any:
        steps, inserts = list(x[0]), x[1]
        for pos, stp in inserts:
            steps.insert(pos % (len(steps) + 1), stp)
        return steps

    return st.tuples(base, ins).map(merge)


@st.composite
def pair(draw: t.Any, max_steps: int) -> t.Dict[str, t.Any]:
    sa = draw(st.sampled_from(["client", "server"]))
    sb = draw(st.sampled_from(["client", "server"]))
    a = draw(gens.memo(f"c19.{sa}.{max_steps}", lambda: script(sa, max_steps)))
    b = draw(gens.memo(f"c19.{sb}.{max_steps}", lambda: script(sb, max_steps)))
    order = draw(st.lists(st.booleans(), min_size=0, max_size=len(a) + len(b)))
    return {"sa": sa, "sb": sb, "a": a, "b": b, "order": order}


def _entry_key(e: history.Entry) -> t.Any:
    return (e.kind, e.ok, e.exc, e.value, e.state, e.emitted)


def run_interleaved(c: t.Dict[str, t.Any]) -> t.Tuple[t.List[history.Entry], t.List[history.Entry]]:
    A = sess.new(c["sa"])
    B = sess.new(c["sb"])
    ma, mb = history.model.Model(c["sa"]), history.model.Model(c["sb"])
    ta: t.List[history.Entry] = []
    tb: t.List[history.Entry] = []
    ia = ib = 0
    order = list(c["order"])
    while ia < len(c["a"]) or ib < len(c["b"]):
        pick_a = order.pop(0) if order else (ia < len(c["a"]))
        if pick_a and ia >= len(c["a"]):
            pick_a = False
        if not pick_a and ib >= len(c["b"]):
            pick_a = True
        if pick_a:
            ta.extend(history.run_plain(c["sa"], [c["a"][ia]], session=A, mdl=ma))
            ia += 1
        else:
            tb.extend(history.run_plain(c["sb"], [c["b"][ib]], session=B, mdl=mb))
            ib += 1
    return ta, tb


class Pairs(Part):
    name = "pairs"
    examples = {QUICK: 300, THOROUGH: 15000}

    def strategy(self, tier: str) -> t.Any:
        n = 20 if tier == QUICK else 40
        return pair(n)

    def check(self, c: t.Any, ctx: Ctx) -> t.List[Violation]:
        alone_a = history.run_plain(c["sa"], c["a"])
        alone_b = history.run_plain(c["sb"], c["b"])
        ta, tb = run_interleaved(c)
        out: t.List[Violation] = []
        for name, alone, inter, side, steps in (("A", alone_a, ta, c["sa"], c["a"]), ("B", alone_b, tb, c["sb"], c["b"])):
            for i, (x, y) in enumerate(zip(alone, inter)):
                if _entry_key(x) != _entry_key(y):
                    what = "result" if (x.ok, x.exc, x.value) != (y.ok, y.exc, y.value) else "state" if x.state != y.state else "bytes"
                    out.append(Violation(f"interleaving-changes-{what}:{steps[i]['op']}",
                                         f"session {name} ({side}) step {i} {steps[i]!r}: alone {_entry_key(x)!r}, interleaved {_entry_key(y)!r}"))
                    break
        # classification
        regs = [(i, s["what"]) for i, s in enumerate(c["a"]) if s["op"] == "register"]
        regs_b = [(i, s["what"]) for i, s in enumerate(c["b"]) if s["op"] == "register"]
        customs_a = any(s["op"] == "recv-custom" for s in c["a"])
        customs_b = any(s["op"] == "recv-custom" for s in c["b"])
        nt = (bool(regs) and customs_b) or (bool(regs_b) and customs_a)
        both_clients_send = c["sa"] == "client" and c["sb"] == "client" and any(e.kind == "call" and e.ok for e in alone_a) and any(e.kind == "call" and e.ok for e in alone_b)
        ctx.event(f"sides:{c['sa']}/{c['sb']}")
        if nt:
            ctx.event("registration-in-one-custom-delivery-in-other")
        if both_clients_send:
            ctx.event("both-clients-issue-requests")
        if nt or both_clients_send:
            ctx.nontrivial(repr(c))
        for e in alone_a + alone_b:
            if e.kind == "register":
                ctx.event(f"register:{'ok' if e.ok else e.exc}")
        return out

    def sample(self, c: t.Any) -> t.Any:
        from .. import jsonx

        return {"sides": [c["sa"], c["sb"]], "a": jsonx.brief(c["a"][:10]), "b": jsonx.brief(c["b"][:10]), "order": c["order"][:20]}


# ---------------------------------------------------------------------------------------- registration clause (enumerated)


def _bytes_with(what: str, side: str, mid: int = 1, nest: int = 0) -> t.Tuple[bytes, t.Any]:
    """bytes carrying the custom type addressed to ``side`` + the abstract value a registered session must produce"""
    ctrl_raw = ("generic", custom.OID_CUSTOM_CONTROL, True, (4242).to_bytes(4, "big"))
    if side == "server":
        if what == "filter":
            m = history.peer_message("searchRequest", 5, 0, 0)
            m["filter"] = history.custom_filter_in(("custom", custom.CUSTOM_FILTER_ID, b"hello"), nest)
            want = dict(m, filter=history.custom_filter_in(("custom-filter", "hello"), nest))
        elif what == "auth":
            m = history.peer_message("bindRequest", 5, 0, 0)
            m["auth"] = ("custom", custom.CUSTOM_AUTH_ID, b"joe:secret")
            want = dict(m, auth=("custom-auth", "joe", "secret"))
        else:
            m = history.peer_message("extendedReq", 5, 0, 0)
            m["controls"] = [ctrl_raw]
            want = dict(m, controls=[("custom-control", True, 4242)])
    else:
        m = history.peer_message("extendedResp", mid, 0, 0)
        m["controls"] = [ctrl_raw]
        want = dict(m, controls=[("custom-control", True, 4242)])
    return rfc4511.encode(m), want


class Registrations(Part):
    """All 2^3 subsets of registered custom types x both sides, checked directly."""

    name = "registrations"
    exhaustive = True
    shards = {QUICK: 4, THOROUGH: 4}

    def enumerate(self, tier: str, shard: int, nshards: int) -> t.Iterable[t.Any]:
        k = 0
        for side in ("client", "server"):
            for n in range(4):
                for subset in itertools.combinations(["control", "filter", "auth"], n):
                    for order in itertools.permutations(subset):
                        for warm in (False, True):
                            for nest in range(6):
                                if k % nshards == shard:
                                    yield {"side": side, "registered": list(order), "warm": warm, "nest": nest}
                                k += 1

    def check(self, c: t.Any, ctx: Ctx) -> t.List[Violation]:
        _LDAPError, ProtocolError = sess.errors()
        C = custom.classes()
        side = c["side"]
        out: t.List[Violation] = []
        B = sess.new(side)  # created before, never registered
        A = sess.new(side)
        reg = {"control": "register_control", "filter": "register_filter", "auth": "register_auth_credential"}
        if c.get("warm"):
            # the session has already encoded and decoded ordinary traffic (controls, filters, credentials of the
            # built-in kinds) before anything is registered: lookup tables built lazily must not go stale
            ctx.event("warm-session")
            # (incl. a control that carries the custom control's OID while it is still an unknown type)
            ctrl = [("generic", "1.2.3.4.5", False, b"x"), ("paged", False, 1, b""), ("generic", custom.OID_CUSTOM_CONTROL, False, (7).to_bytes(4, "big"))]
            if side == "server":
                for mid, m in enumerate([history.peer_message("searchRequest", 901, 0, 0), history.peer_message("extendedReq", 902, 0, 0)]):
                    m["controls"] = ctrl
                    A.receive(rfc4511.encode(m))
                A.search_result_done(901)
                A.extended_response(902)
                A.receive(rfc4511.encode(history.peer_message("bindRequest", 903, 0, 1)))
                A.bind_response(903)
                A.data_to_send()
            else:
                i1 = A.search_request(filter=sess.lib().FilterEquality("cn", b"x"), controls=[sess.lib().ShowDeletedControl(True)])
                m = history.peer_message("searchResDone", i1, 0, 0)
                m["controls"] = ctrl
                A.receive(rfc4511.encode(m))
                A.data_to_send()
        for what in c["registered"]:
            getattr(A, reg[what])(C[what])
            try:
                getattr(A, reg[what])(C[what])
            except ValueError:
                pass
            except BaseException as e:
                out.append(Violation("duplicate-registration-wrong-exception", f"{what}: {e!r}"))
            else:
                out.append(Violation("duplicate-registration-accepted", what))
        Cn = sess.new(side)  # created after the registrations
        ctx.event(f"registered:{len(c['registered'])}")
        ctx.nontrivial(repr(c))
        whats = ["control", "filter", "auth"] if side == "server" else ["control"]
        nest = c.get("nest", 0)
        for what in whats:
            data, want = _bytes_with(what, side, nest=nest)
            for name, s0, registered in (("A", A, what in c["registered"]), ("B-before", B, False), ("C-after", Cn, False)):
                import copy

                s = copy.deepcopy(s0)
                if side == "client":
                    data, want = _bytes_with(what, side, s.extended_request("1.2.3"), nest=nest)
                    s.data_to_send()
                try:
                    r = s.receive(data)
                    got: t.Any = [absval.to_abstract(m, decoded=True) for m in r]
                except ProtocolError:
                    got = "ProtocolError"
                except BaseException as e:
                    out.append(Violation(f"receive-escaped:{msgcheck.exc_site(e, innermost=True)}", f"{name} {what}: {e!r}"))
                    continue
                if registered:
                    if got != [want]:
                        out.append(Violation(f"registered-type-not-decoded:{what}", f"session {name}: got {got!r}, expected {[want]!r}"))
                else:
                    if what == "control":
                        base = dict(want)
                        base["controls"] = [("generic", custom.OID_CUSTOM_CONTROL, True, (4242).to_bytes(4, "big"))]
                        if got != [base]:
                            out.append(Violation("unregistered-session-affected:control", f"session {name} (registered on A: {c['registered']}): got {got!r}"))
                    elif got != "ProtocolError":
                        out.append(Violation(f"unregistered-session-affected:{what}", f"session {name} (registered on A: {c['registered']}): got {got!r}"))
        # another session that registers a DIFFERENT class for the same OID / id decodes with its own class,
        # whichever session decoded first
        for what in whats:
            if what not in c["registered"]:
                continue
            CB = custom.classes("B")
            data, want = _bytes_with(what, side, nest=nest)
            wantB = dict(want)
            if what == "control":
                wantB["controls"] = [("custom-control-B", True, 4242)]
            elif what == "filter":
                wantB["filter"] = history.custom_filter_in(("custom-filter-B", "hello"), nest)
            else:
                wantB["auth"] = ("custom-auth-B", "joe", "secret")
            for first in ("A", "B"):
                import copy

                a2 = copy.deepcopy(A)
                b2 = sess.new(side)
                getattr(b2, reg[what])(CB[what])
                order = [("A", a2, want), ("B", b2, wantB)] if first == "A" else [("B", b2, wantB), ("A", a2, want)]
                for name, s, w in order:
                    if side == "client":
                        data, w0 = _bytes_with(what, side, s.extended_request("1.2.3"), nest=nest)
                        w = dict(w, id=w0["id"])
                        s.data_to_send()
                    try:
                        got2: t.Any = [absval.to_abstract(m, decoded=True) for m in s.receive(data)]
                    except BaseException as e:
                        got2 = f"{type(e).__name__}"
                    if got2 != [w]:
                        out.append(Violation(f"same-id-different-class-decoded-with-wrong-class:{what}",
                                             f"session {name} (decoding order {first} first): got {got2!r}, expected {[w]!r}"))
        # a registration whose id collides with a BUILT-IN type is a duplicate too: it is rejected - or, if a session
        # accepts it, it takes effect (the session decodes that id with the registered class); never a silent no-op
        for what, ident in ([("control", oid) for oid in sorted(rfc4511.KNOWN_OIDS)] + [("filter", n) for n in range(10)] + [("auth", 0), ("auth", 3)]):
            if side == "client" and what != "control":
                continue
            s = copy.deepcopy(A)
            ctx.event(f"collision-with-built-in:{what}")
            try:
                getattr(s, reg[what])(custom.colliding(what, ident))
            except ValueError:
                continue
            except BaseException as e:
                out.append(Violation("duplicate-registration-wrong-exception", f"{what} {ident!r} (built-in): {e!r}"))
                continue
            if side == "server":
                if what == "filter":
                    m = history.peer_message("searchRequest", 5, 0, 0)
                    m["filter"] = ("custom", ident, b"hello")
                    want = dict(m, filter=("custom-filter", "hello"))
                elif what == "auth":
                    m = history.peer_message("bindRequest", 5, 0, 0)
                    m["auth"] = ("custom", ident, b"joe:secret")
                    want = dict(m, auth=("custom-auth", "joe", "secret"))
                else:
                    m = history.peer_message("extendedReq", 5, 0, 0)
            else:
                m = history.peer_message("extendedResp", s.extended_request("1.2.3"), 0, 0)
                s.data_to_send()
            if what == "control":
                m["controls"] = [("generic", ident, True, (4242).to_bytes(4, "big"))]
                want = dict(m, controls=[("custom-control", True, 4242)])
            try:
                got3: t.Any = [absval.to_abstract(x, decoded=True) for x in s.receive(rfc4511.encode(m))]
            except BaseException as e:
                got3 = type(e).__name__
            if got3 != [want]:
                out.append(Violation(f"registration-colliding-with-built-in-accepted-without-effect:{what}",
                                     f"{side}: registering a {what} with the built-in id {ident!r} raised nothing, but the session decodes that id as {got3!r}"))
        # B can still register by itself (no leak of A's registration into B's duplicate check)
        for what in ["control", "filter", "auth"]:
            b2 = sess.new(side)
            try:
                getattr(b2, reg[what])(C[what])
            except BaseException as e:
                out.append(Violation(f"registration-leaked-between-sessions:{what}", f"fresh session refuses first registration after A registered {c['registered']}: {e!r}"))
        # A emits the type (packing needs no registration, but must be unaffected by it)
        if side == "client":
            a = sess.new("client")
            for what in c["registered"]:
                getattr(a, reg[what])(C[what])
            mid = a.search_request(base_object="dc=c", filter=C["filter"](value="hello"), controls=[C["control"](critical=True, size=4242)])
            emitted = a.data_to_send()
            m = history.peer_message("searchRequest", mid, 0, 0)
            m.update(base="dc=c", filter=("custom", custom.CUSTOM_FILTER_ID, b"hello"),
                     controls=[("generic", custom.OID_CUSTOM_CONTROL, True, (4242).to_bytes(4, "big"))])
            if emitted != rfc4511.encode(m):
                out.append(Violation("custom-type-not-emitted-as-defined", f"{emitted.hex()} != {rfc4511.encode(m).hex()}"))
        return out


class SharedBuffer(Part):
    """The application hands the SAME mutable buffer object to two sessions (one read buffer for all connections):
    each session behaves as if it had been given its own copy (enumerated: side x cut position x container)."""

    name = "shared-buffer"
    exhaustive = True
    shards = {QUICK: 4, THOROUGH: 4}

    def enumerate(self, tier: str, shard: int, nshards: int) -> t.Iterable[t.Any]:
        k = 0
        for side in ("client", "server"):
            n = len(self._stream(side))
            for cut in range(0, n + 1):
                for container in ("bytearray", "memoryview"):
                    for reuse in (False, True):
                        if k % nshards == shard:
                            yield {"side": side, "cut": cut, "container": container, "reuse": reuse}
                        k += 1

    @staticmethod
    def _stream(side: str) -> bytes:
        if side == "server":
            ms = [history.peer_message("searchRequest", 1, 0, 0), history.peer_message("extendedReq", 2, 0, 3)]
        else:
            ms = [history.peer_message("searchResEntry", 1, 0, 0), history.peer_message("searchResDone", 1, 0, 2)]
        return b"".join(rfc4511.encode(m) for m in ms)

    def check(self, c: t.Any, ctx: Ctx) -> t.List[Violation]:
        side = c["side"]
        stream = self._stream(side)
        cut = c["cut"]

        def fresh() -> t.Any:
            s = sess.new(side)
            if side == "client":
                s.search_request()
                s.data_to_send()
            return s

        def feed(s: t.Any, data: t.Any) -> t.Any:
            try:
                return [absval.to_abstract(m, decoded=True) for m in s.receive(data)]
            except BaseException as e:
                return type(e).__name__

        alone = fresh()
        want = [feed(alone, stream[:cut]), feed(alone, stream[cut:])]
        a, b = fresh(), fresh()
        tail = stream[cut:]
        if c["container"] == "bytearray":
            buf = bytearray(stream[:cut])
            obj: t.Any = buf
        else:
            # a fixed-size read buffer and views of its filled part (recv_into)
            buf = bytearray(max(cut, len(tail), 1))
            buf[:cut] = stream[:cut]
            obj = memoryview(buf)[:cut]
        got_a = [feed(a, obj)]
        got_b = [feed(b, obj)]
        if c["reuse"]:
            # the application reads the next bytes into the same buffer object
            if c["container"] == "bytearray":
                try:
                    buf[:] = tail
                except BufferError as e:
                    return [Violation("shared-buffer:session-kept-an-export-of-the-callers-buffer", f"{side}, cut {cut}: {e!r}")]
                obj2: t.Any = buf
            else:
                obj.release()
                buf[: len(tail)] = tail
                obj2 = memoryview(buf)[: len(tail)]
        else:
            obj2 = bytearray(tail)
        got_a.append(feed(a, obj2))
        got_b.append(feed(b, obj2))
        ctx.event(f"cut:{'boundary' if cut in (0, len(stream)) else 'inside'}")
        ctx.nontrivial(repr(c))
        out = []
        for name, got in (("first", got_a), ("second", got_b)):
            if got != want:
                out.append(Violation(f"shared-buffer:{name}-session-differs-from-alone",
                                     f"{side}, stream cut at {cut}, {c['container']}{' reused for the tail' if c['reuse'] else ''}: got {got!r}, alone {want!r}"))
        return out


PROP = Property(
    id="C19",
    rule=(
        "Generated: two scripts (symbolic steps as C08/C10 plus register_control/filter/auth_credential of harness-defined "
        "custom classes incl. duplicates, sends using the custom types, deliveries of bytes carrying them) for two "
        "sessions of any client/server combination, and a merge order. Oracle: interleaved-vs-isolated differential - "
        "each script's transcript (projected return value, exception class, state, drained bytes per step) when run "
        "alone on a fresh session equals its transcript when interleaved with the other. Registration clause checked "
        "directly for all ordered subsets of the 3 custom types x both sides: duplicate registration raises ValueError; "
        "bytes carrying T decode to T on the registering session, to a generic control / ProtocolError on a session "
        "created before and on one created after; fresh sessions can still register; a registration whose id collides with "
        "any built-in type (3 control OIDs, filter ids 0-9, credential ids 0 and 3) is rejected or effective. Part "
        "shared-buffer (enumerated): the same bytearray / memoryview object holding a stream prefix (every cut position) "
        "is handed to two sessions, then the tail (in a new object or in the same, reused one): both behave as alone. "
        "Non-trivial = a registration in "
        "one script and a delivery of a custom type in the other, or both clients issue requests; distinct by case."
    ),
    parts=[Pairs(), Registrations(), SharedBuffer()],
    assumptions=["the global cache behind LDAPResultCode(<unknown>) is shared by design; transcripts compare result codes by value"],
    technique="differential property testing (interleaved vs isolated transcripts) + enumerated registration subsets, built-in id collisions and shared-buffer deliveries",
)
