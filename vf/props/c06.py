"""C06 - no complete protocol data unit is ever silently discarded."""

from __future__ import annotations

import typing as t

from hypothesis import strategies as st

from .. import absval, ber, gens, msgcheck, mutate, rfc4511, sess
from ..engine import QUICK, THOROUGH, Ctx, Part, Property, Violation
from .c02 import wrap
from .c05 import mutation

_PAGED_VALUES = [None, b"", b"\x30", b"\x04\x01a", b"\x30\x03\x02\x01", b"\x30\x84\x00\x00\x10\x00", b"\x30\x05\x02\x01\x05\x04\x05ab",
                 b"\x30\x03\x02\x05\x01", b"\x02\x01\x01"]

_INTERIOR_OPS = [op for op in mutate.OPS if op not in ("append-junk",)]


@st.composite
def unit(draw: t.Any, side: str, nprep: int, idx: int, only_valid: bool = False) -> t.Any:
    kind = draw(st.sampled_from(["valid", "valid", "valid-forms"])) if only_valid else draw(st.sampled_from(["valid", "valid", "valid-forms", "valid-big", "valid-any", "unsolicited", "appendix", "interior", "interior", "interior", "paged", "interior-random", "nonseq-outer", "empty-outer"]))
    rid = draw(st.integers(0, nprep - 1)) if nprep else None
    if side == "server":
        base = gens.memo("c06.server", lambda: gens.message(kinds=["searchRequest", "extendedReq"], filt=gens.filters(max_leaves=4), ids=st.just(0))).map(
            lambda m: dict(m, id=1000 + idx))
    else:
        base = gens.memo("c06.client", lambda: gens.message(kinds=["searchResEntry", "searchResRef"], ids=st.just(0)))
    if kind == "valid":
        return ("valid", draw(base), rid)
    if kind == "valid-forms":
        # a valid unit in another valid BER form: every length (incl. the outer one) in generated long/padded forms
        return ("valid-forms", draw(base), rid, draw(st.lists(st.integers(0, 255), min_size=4, max_size=24)))
    if kind == "valid-big":
        # a valid unit whose outer length needs 3 length octets (> 65535) or sits at a boundary
        size = draw(st.sampled_from([120, 250, 65400, 65536, 70000]))
        if side == "server":
            m = {"kind": "extendedReq", "id": 1000 + idx, "controls": [], "name": "1.2", "value": b"\x00" * size}
        else:
            m = {"kind": "searchResEntry", "id": 0, "controls": [], "name": "cn=big", "attributes": [("a", [b"\x00" * size])]}
        return ("valid", m, rid)
    if kind == "appendix":
        # something appended INSIDE the envelope after the last component (outer length recomputed): an honest unknown
        # trailing component (the message is still valid), one whose declared length overruns the envelope, or a header cut short
        mm = dict(draw(base))
        if draw(st.booleans()):
            mm["controls"] = [("generic", "1.2.3.4", False, None)]
        tag = draw(st.sampled_from([0x85, 0xA5, 0x8B, 0x04, 0x30, 0xDF]))
        form = draw(st.sampled_from(["honest", "overrun", "overrun", "tag-only", "len-cut", "overrun-long"]))
        return ("appendix", mm, rid, tag, form, draw(st.integers(1, 200)))
    if kind == "unsolicited":
        # message id 0: an unsolicited notification (ExtendedResponse, any name or none) for a client, a request
        # numbered 0 for a server - well-formed, complete units
        if side == "client":
            nm = draw(st.sampled_from([None, "1.2.3", "1.3.6.1.4.1.1466.20036", "1.3.6.1.4.1.1466.20037", ""]))
            m = {"kind": "extendedResp", "id": 0, "controls": [], "result": {"code": draw(st.sampled_from([0, 2, 52, 4096])), "matched": "", "diag": "", "referral": None},
                 "name": nm, "value": draw(st.sampled_from([None, b"", b"v"]))}
        else:
            m = dict(draw(base), id=0)
        return ("valid-any", m, None)
    if kind == "valid-any":
        # a well-formed message of ANY kind with any id (0, unknown, in progress): wrong for the conversation perhaps,
        # but a complete unit - it is returned or reported like every other one
        m = draw(gens.memo("c06.valid-any", lambda: gens.message(filt=gens.filters(max_leaves=3), ids=st.sampled_from([0, 0, 0, 1, 2, 3, 7, 1000, -1]))))
        return ("valid-any", m, draw(st.sampled_from([None, None, rid])))
    if kind == "paged":
        m = dict(draw(base))
        v = draw(st.sampled_from(_PAGED_VALUES))
        m["controls"] = [("generic", rfc4511.OID_PAGED, draw(st.booleans()), v)]
        return ("paged", m, rid)
    if kind == "empty-outer":
        # a complete outer TLV with NO content, its zero length in short or (padded) long form
        return ("empty-outer", draw(st.sampled_from([b"\x30\x00", b"\x30\x81\x00", b"\x30\x82\x00\x00", b"\x30\x84\x00\x00\x00\x00",
                                                      b"\x30\x88" + b"\x00" * 8, b"\x04\x81\x00", b"\x60\x82\x00\x00"])))
    if kind == "nonseq-outer":
        form = draw(st.sampled_from(["octets", "set", "app", "ctx", "int"]))
        return ("nonseq-outer", form, draw(st.binary(max_size=10)), draw(base), rid)
    anym = draw(st.one_of(base, gens.memo("c06.any", lambda: gens.message(filt=gens.filters(max_leaves=4), ids=st.integers(0, 50)))))
    if kind == "interior-random":
        return ("interior-random", anym, rid, draw(st.binary(min_size=0, max_size=30)))
    mut = dict(draw(gens.memo("c05.mutation", mutation)))
    mut["op"] = draw(st.sampled_from(_INTERIOR_OPS))
    return ("interior", anym, rid, mut)


@st.composite
def case(draw: t.Any) -> t.Dict[str, t.Any]:
    side = draw(st.sampled_from(["client", "server"]))
    prep = [("search",)] * draw(st.integers(1, 3)) if side == "client" else draw(st.sampled_from([[], [("search",)], [("extended",)]]))
    n = draw(st.integers(1, 6))
    # half of the streams carry exactly ONE unit that is not plainly valid: whatever happens to it is not masked by
    # an error that another unit causes later in the stream
    fault_at = draw(st.one_of(st.none(), st.integers(0, n - 1)))
    units = [draw(unit(side, len(prep) if side == "client" else 0, i, only_valid=fault_at is not None and i != fault_at)) for i in range(n)]
    if draw(st.integers(0, 39)) == 0:
        # a long run of complete units in one stream (limits on "messages per call" must not lose or hold back any)
        rep = draw(st.sampled_from([100, 513, 1025, 2049]))
        at = draw(st.integers(0, len(units)))
        tiny = ({"kind": "extendedReq", "id": 4000, "controls": [], "name": "1.1", "value": None} if side == "server"
                else {"kind": "searchResEntry", "id": 0, "controls": [], "name": "", "attributes": []})
        units.insert(at, ("repeat", ("valid", tiny, 0 if side == "client" else None), rep))
    tail = draw(st.one_of(st.none(), st.none(), st.integers(1, 10**6)))
    mode = draw(st.sampled_from(["one", "one", "cuts", "cuts", "cuts", "bytes"]))
    return {
        "side": side,
        "prep": prep,
        "units": units,
        "tail": tail,
        "mode": mode,
        "cuts": draw(st.lists(st.integers(0, 10**6), min_size=1, max_size=10)) if mode == "cuts" else [],
        "containers": draw(st.lists(st.sampled_from([0, 1, 2]), min_size=1, max_size=4)),
    }


def rewrap_outer(original: bytes, mutated: bytes) -> bytes:
    """Keep the outer identifier octets, recompute the outer length over whatever the interior is now."""
    _c, _k, _n, hl, _l, tag_oct, _lo = ber.read_header(original, 0)
    body = mutated[hl:]
    return tag_oct + ber.length_octets(len(body)) + body


def unit_bytes(u: t.Any, ids: t.List[int]) -> t.Tuple[bytes, str, bool]:
    """-> (bytes of one complete outer TLV, label, malformed?)"""
    k = u[0]
    if k == "empty-outer":
        return u[1], "empty-outer", True
    if k == "nonseq-outer":
        form, rnd, m, rid = u[1], u[2], dict(u[3]), u[4]
        if rid is not None and rid < len(ids):
            m["id"] = ids[rid]
        inner = rfc4511.encode(m)
        _c, _k, _n, hl, _l, _t, _lo = ber.read_header(inner, 0)
        body = inner[hl:]
        if form == "octets":
            return b"\x04" + ber.length_octets(len(rnd)) + rnd, "nonseq-outer:octets", True
        if form == "int":
            return b"\x02\x01\x05", "nonseq-outer:int", True
        tag = {"set": b"\x31", "app": b"\x60", "ctx": b"\xa0"}[form]
        return tag + ber.length_octets(len(body)) + body, f"nonseq-outer:{form}", True
    m = dict(u[1])
    rid = u[2]
    if rid is not None and rid < len(ids):
        m["id"] = ids[rid]
    data = rfc4511.encode(m)
    if k == "valid":
        return data, "valid", False
    if k == "valid-any":
        return data, f"valid-any:{m['kind']}", True
    if k == "appendix":
        tag, form, n = u[3], u[4], u[5]
        ident = bytes([tag]) if tag != 0xDF else b"\xdf\x21"
        app = {"honest": ident + b"\x02ab", "overrun": ident + bytes([2 + n % 120]) + b"ab", "tag-only": ident, "len-cut": ident + b"\x82\x00",
               "overrun-long": ident + b"\x84\x00\x00\x01\x00" + b"ab"}[form]
        _c, _k2, _n2, hl, _l, tag_oct, _lo = ber.read_header(data, 0)
        body = data[hl:] + app
        return tag_oct + ber.length_octets(len(body)) + body, f"appendix:{form}", form != "honest"
    if k == "valid-forms":
        return rfc4511.encode(m, rfc4511.Knobs(u[3], kinds=("length-wide",))), "valid-forms", False
    if k == "paged":
        v = m["controls"][0][3]
        return data, f"paged-value:{'absent' if v is None else v.hex() or 'empty'}", True
    if k == "interior-random":
        nodes = mutate.index_nodes(data)
        keep = nodes[1].start + nodes[1].hdr + nodes[1].length if len(nodes) > 1 else nodes[0].hdr  # outer header + messageID
        return rewrap_outer(data, data[:keep] + u[3]), "interior-random", True
    mut = dict(u[3])
    nodes = mutate.index_nodes(data)
    if len(nodes) < 2:
        return data, "valid", False
    mut["node"] = 1 + mut["node"] % (len(nodes) - 1)
    mut["repair"] = False
    mutated, info = mutate.apply(data, mut)
    return rewrap_outer(data, mutated), f"interior:{info['op']}", True


def check_case(c: t.Dict[str, t.Any], ctx: Ctx) -> t.List[Violation]:
    _LDAPError, ProtocolError = sess.errors()
    side = c["side"]
    s, ids = sess.prepare(side, c["prep"])
    parts, labels, bad = [], [], []
    for u in c["units"]:
        if u[0] == "repeat":
            b, lab, malformed = unit_bytes(u[1], ids)
            parts.extend([b] * u[2])
            labels.extend(["valid(repeated)"] * u[2])
            bad.extend([False] * u[2])
            ctx.event(f"run-of-{'>512' if u[2] > 512 else '<=512'}-units")
            continue
        b, lab, malformed = unit_bytes(u, ids)
        parts.append(b)
        labels.append(lab)
        bad.append(malformed)
    stream = b"".join(parts)
    if c["tail"] is not None:
        nxt = rfc4511.encode({"kind": "extendedReq" if side == "server" else "searchResEntry", "id": 4242, "controls": [],
                              **({"name": "1.2.3.4.5.6", "value": b"0123456789"} if side == "server"
                                 else {"name": "cn=incomplete", "attributes": []})})
        stream += nxt[: 1 + c["tail"] % (len(nxt) - 1)]
        labels.append("incomplete-tail")
    units, tail_incomplete, hard = ber.frame(stream)
    if hard is not None or len(units) != len(parts):
        raise AssertionError(f"harness: stream does not frame into the generated units: {labels} {stream.hex()}")
    for lab in labels:
        ctx.event("unit:" + lab.split(":")[0] + (":" + lab.split(":")[1] if lab.startswith("interior:") else ""))
    if any(bad) or len(parts) > 50:
        ctx.nontrivial((side, stream, c["mode"], tuple(c["cuts"])))
        for i in range(len(bad) - 1):
            if bad[i] and not bad[i + 1]:
                ctx.event("malformed-then-valid")
                break
    n = len(stream)
    if c["mode"] == "one" or n == 0:
        cuts: t.List[int] = []
    elif c["mode"] == "bytes":
        # (byte-wise delivery re-parses the pending buffer on every call: long streams are cut ~40 times instead)
        cuts = list(range(1, n)) if n <= 400 else list(range(1, n, n // 60 + 1))
    else:
        cuts = sorted(x % (n + 1) for x in c["cuts"])
    got = 0
    pos = 0
    for i, ch in enumerate(gens.apply_cuts(stream, cuts)):
        obj, backing = wrap(ch, c["containers"][i % len(c["containers"])])
        pos += len(ch)
        try:
            r = s.receive(obj)
            if backing is not None:
                # the caller reuses its buffer (recv_into): whatever the session holds back must be its own copy
                backing[:] = b"\xaa" * len(backing)
        except ProtocolError:
            ctx.event("outcome:protocol-error")
            return []
        except BaseException as e:
            return [Violation(f"escaped:{msgcheck.exc_site(e, innermost=True)}", f"units {labels} stream {stream[:200].hex()}: {e!r}")]
        got += len(r)
        complete = sum(1 for (_s, e) in units if e <= pos)
        if got != complete:
            first = labels[got] if got < len(labels) else "?"
            what = "complete-unit-not-accounted-for" if got < complete else "more-messages-than-complete-units"
            return [Violation(what, f"{side}: after {pos}/{n} bytes {complete} complete unit(s) were delivered but {got} message(s) "
                                    f"returned and no error raised; first unaccounted unit is '{first}'; units {labels}; "
                                    f"stream {stream[:240].hex()} cuts {cuts[:20]}")]
    ctx.event("outcome:all-returned")
    return []


class Streams(Part):
    name = "streams"
    examples = {QUICK: 1200, THOROUGH: 20000}

    def strategy(self, tier: str) -> t.Any:
        return case()

    def check(self, c: t.Any, ctx: Ctx) -> t.List[Violation]:
        return check_case(c, ctx)

    def sample(self, c: t.Any) -> t.Any:
        try:
            _s, ids = sess.prepare(c["side"], c["prep"])
            bs = [unit_bytes(u if u[0] != "repeat" else u[1], ids) for u in c["units"]]
            return {"side": c["side"], "units": [lab for _b, lab, _m in bs], "stream": b"".join(b for b, _l, _m in bs)[:160].hex(),
                    "mode": c["mode"], "tail": c["tail"] is not None}
        except Exception:
            return {"side": c["side"]}


def _selftest(tier: str, seed: int) -> None:
    # rewrap keeps the unit complete whatever the interior mutation does
    m = msgcheck._templates()["searchRequest"]
    data = rfc4511.encode(m)
    nodes = mutate.index_nodes(data)
    for i in range(1, len(nodes)):
        for op in _INTERIOR_OPS:
            mutated, _ = mutate.apply(data, {"node": i, "op": op, "arg": 3, "repair": False, "rnd": b"xyz"})
            u = rewrap_outer(data, mutated)
            units, tail, hard = ber.frame(u + b"\x30\x00")
            assert hard is None and not tail and len(units) == 2 and units[0] == (0, len(u)), (i, op)


PROP = Property(
    id="C06",
    rule=(
        "Generated: streams of 1-6 complete outer TLVs - valid messages the side accepts, valid messages with one "
        "interior single-node corruption while the outer length is kept right (inner length over/under-running its "
        "parent, components deleted/duplicated/truncated, tag flips, indefinite length, ...), a paged-results control "
        "whose value is absent/empty/short/not a sequence, an interior replaced by random bytes after the message id, "
        "or an outer TLV that is not a SEQUENCE, occasionally with a run of 100..2049 identical valid units inserted - optionally "
        "followed by a genuinely incomplete tail, delivered in one "
        "piece, byte-wise or at generated cuts to a client or server. Oracle (independent framing, vf/ber.py frame() "
        "looks at outer identifier/length octets only): after every receive call that returns normally, messages "
        "returned so far == complete units delivered so far; a ProtocolError ends the run. Non-trivial = the stream "
        "contains >=1 complete unit with a malformed interior (sub-class malformed-then-valid counted); distinct by "
        "(side, stream, chunking)."
    ),
    parts=[Streams()],
    assumptions=["valid units are acceptable to the receiving side, so that errors only come from malformed units"],
    selftest=_selftest,
    technique="property-based testing with an independent framing oracle over generated streams and chunkings",
)
