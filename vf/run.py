"""CLI:  python -m vf.run <Cxx> [--tier quick|thorough] [--replay FILE] [--part NAME]

exit 0  property held on everything explored (KNOWN-FINDING lines possible)
exit 1  at least one unlisted violation; one line per bucket:
        VIOLATION property=<id> replay=<path>
exit 2  harness error (import failure of the tree, reference self-test failure, ...)
"""

from __future__ import annotations

import argparse
import collections
import glob
import json
import os
import sys
import time
import traceback
import typing as t

from . import engine, findings, jsonx

ROOT = findings.ROOT


def _write_replay(prop_id: str, part: str, key: str, case: t.Any, detail: str, tier: str, seed: int) -> str:
    d = os.path.join(ROOT, "out", prop_id)
    os.makedirs(d, exist_ok=True)
    path = os.path.join(d, engine.slug(f"{part}.{key}") + ".json")
    with open(path, "w") as fh:
        fh.write(
            jsonx.dumps(
                {"property": prop_id, "part": part, "bucket": key, "detail": detail, "tier": tier, "seed": seed,
                 "case": case},
                indent=1,
            )
        )
    return os.path.relpath(path, ROOT)


def _replay_file(prop: engine.Property, path: str) -> t.List[engine.Violation]:
    with open(path) as fh:
        rec = jsonx.loads(fh.read())
    part = prop.part(rec["part"])
    ctx = engine.Ctx(part.name)
    ctx._case = rec["case"]
    try:
        return part.check(rec["case"], ctx)
    except Exception as e:
        return engine._library_exception(e)


def main(argv: t.Optional[t.List[str]] = None) -> int:
    ap = argparse.ArgumentParser()
    ap.add_argument("prop")
    ap.add_argument("--tier", default=os.environ.get("VERIF_TIER", "quick"), choices=["quick", "thorough"])
    ap.add_argument("--replay")
    ap.add_argument("--part")
    ap.add_argument("--no-shrink", action="store_true")
    args = ap.parse_args(argv)

    seed = int(os.environ.get("VERIF_SEED", "1") or "1")
    prop_id = args.prop.upper()
    t0 = time.monotonic()

    # -- the tree under test must import; otherwise this is a harness error, not a violation
    try:
        import sansldap  # noqa: F401
        import sansldap.schema  # noqa: F401
        import sansldap.asn1  # noqa: F401
    except BaseException:
        traceback.print_exc()
        engine.eprint("HARNESS-ERROR: the tree under test does not import")
        return 2
    src = os.path.realpath(os.path.dirname(sansldap.__file__))
    want = os.path.realpath(os.environ.get("VERIF_REPO_SRC", "/repo/src"))
    if not src.startswith(want):
        engine.eprint(f"HARNESS-ERROR: sansldap imported from {src}, expected under {want}")
        return 2

    try:
        prop = engine.load_property(prop_id)
    except BaseException:
        traceback.print_exc()
        engine.eprint(f"HARNESS-ERROR: cannot load property module for {prop_id}")
        return 2

    known = findings.known()

    if args.replay:
        try:
            vs = _replay_file(prop, args.replay)
        except BaseException:
            traceback.print_exc()
            return 2
        rc = 0
        for v in vs:
            if known.is_open(prop_id, v.key):
                print(f"KNOWN-FINDING: property={prop_id} {known.what(prop_id, v.key)} [{v.key}]")
            else:
                print(f"VIOLATION property={prop_id} replay={args.replay}")
                print(f"  bucket: {v.key}\n  detail: {v.detail}")
                rc = 1
        if not vs:
            print(f"replay {args.replay}: property {prop_id} holds on this case")
        return rc

    # -- reference self tests
    if prop.selftest is not None:
        try:
            prop.selftest(args.tier, seed)
        except BaseException:
            traceback.print_exc()
            engine.eprint("HARNESS-ERROR: reference self-test failed")
            return 2

    violations: t.List[t.Tuple[str, str, str]] = []  # (key, replay path, detail)
    known_hit: t.Counter[str] = collections.Counter()

    # -- committed regression inputs first
    replayed = 0
    for path in sorted(glob.glob(os.path.join(ROOT, "replays", prop_id, "*.json"))):
        try:
            vs = _replay_file(prop, path)
        except BaseException:
            traceback.print_exc()
            engine.eprint(f"HARNESS-ERROR: replay file {path} cannot be executed")
            return 2
        replayed += 1
        for v in vs:
            if known.is_open(prop_id, v.key):
                known_hit[v.key] += 1
            else:
                violations.append((v.key, os.path.relpath(path, ROOT), v.detail))

    # -- generated search
    try:
        results = engine.run_parts(prop, args.tier, seed, args.part)
    except BaseException:
        traceback.print_exc()
        return 2
    errs = [r for r in results if r.error]
    if errs:
        for r in errs[:3]:
            engine.eprint(f"HARNESS-ERROR in part {r.part} shard {r.shard}:\n{r.error}")
        return 2

    evaluations = sum(r.evaluations for r in results)
    skipped = sum(r.skipped_by_budget for r in results)
    nt: t.Set[bytes] = set()
    events: t.Counter[str] = collections.Counter()
    per_part: t.Dict[str, t.Dict[str, t.Any]] = {}
    buckets: t.Dict[t.Tuple[str, str], t.Tuple[int, t.Any, str, int]] = {}
    bucket_counts: t.Counter[t.Tuple[str, str]] = collections.Counter()
    samples: t.List[t.Any] = []
    for r in results:
        nt |= r.nt
        pp = per_part.setdefault(r.part, {"evaluations": 0, "distinct_nontrivial": set(), "shards": 0, "wall_s": 0.0})
        pp["evaluations"] += r.evaluations
        pp["distinct_nontrivial"] |= r.nt
        pp["shards"] += 1
        pp["wall_s"] = max(pp["wall_s"], round(r.wall, 2))
        for k, n in r.events.items():
            events[f"{r.part}:{k}"] += n
        for k, (size, case, detail) in r.buckets.items():
            kk = (r.part, k)
            if kk not in buckets or size < buckets[kk][0]:
                buckets[kk] = (size, case, detail, r.seed)
        for k, n in r.bucket_counts.items():
            bucket_counts[(r.part, k)] += n
    for pname in per_part:
        got = 0
        for r in results:
            if r.part == pname and got < 2:
                for s in r.nt_samples[: 2 - got]:
                    samples.append({"part": pname, "nontrivial": True, "case": s})
                    got += 1
        for r in results:
            if r.part == pname and r.samples:
                samples.append({"part": pname, "nontrivial": False, "case": r.samples[0]})
                break
    for pp in per_part.values():
        pp["distinct_nontrivial"] = len(pp["distinct_nontrivial"])
        p = prop.part([k for k, v in per_part.items() if v is pp][0])
        if p.exhaustive:
            pp["exhaustive"] = True

    shrunk = 0
    for (pname, key), (size, case, detail, sseed) in sorted(buckets.items(), key=lambda kv: kv[0]):
        if known.is_open(prop_id, key):
            known_hit[key] += bucket_counts[(pname, key)]
            continue
        if not args.no_shrink and shrunk < 6 and prop.part(pname).shrinkable[args.tier]:
            cap = 45.0 if args.tier == "quick" else 240.0
            try:
                case, d2 = engine.shrink_bucket(prop_id, pname, args.tier, sseed, key, case, cap)
                detail = d2 or detail
            except BaseException:
                traceback.print_exc()
            shrunk += 1
        path = _write_replay(prop_id, pname, key, case, detail, args.tier, seed)
        violations.append((key, path, detail))

    for key, n in sorted(known_hit.items()):
        print(f"KNOWN-FINDING: property={prop_id} {known.what(prop_id, key)} [{key}] (hit {n}x)")
    seen = set()
    for key, path, detail in violations:
        if (key, path) in seen:
            continue
        seen.add((key, path))
        print(f"VIOLATION property={prop_id} replay={path}")
        print(f"  bucket: {key}\n  detail: {detail[:1500]}")

    wall = time.monotonic() - t0
    evidence = {
        "property_id": prop_id,
        "tier": args.tier,
        "seed": seed,
        "level": "exploration",
        "coverage": {
            "evaluations": evaluations,
            "distinct_nontrivial": len(nt),
            "rule": prop.rule,
            "samples": samples[:12],
            "parts": per_part,
            "classes": dict(sorted(events.items())),
            "replays_executed": replayed,
            "truncated_by_budget": skipped > 0,
            "cases_skipped_by_budget": skipped,
            "known_findings_hit": dict(known_hit),
            "violation_buckets": sorted({k for k, _, _ in violations}),
            "exhaustive": False,
        },
        "assumptions": prop.assumptions,
        "wall_s": round(wall, 2),
        "violations": len({k for k, _, _ in violations}),
    }
    evdir = os.environ.get("VERIF_EVIDENCE_DIR") or os.path.join(ROOT, "evidence")
    os.makedirs(evdir, exist_ok=True)
    with open(os.path.join(evdir, f"{prop_id}.json"), "w") as fh:
        json.dump(evidence, fh, indent=1, ensure_ascii=True, sort_keys=False)
        fh.write("\n")

    print(
        f"{prop_id} {args.tier} seed={seed}: {evaluations} cases, {len(nt)} distinct non-trivial, "
        f"{len({k for k, _, _ in violations})} violation bucket(s), {len(known_hit)} known finding(s), {wall:.1f}s"
        + (f", {skipped} cases skipped by budget" if skipped else "")
    )
    return 1 if violations else 0


if __name__ == "__main__":
    try:
        rc = main()
    except SystemExit:
        raise
    except BaseException:
        traceback.print_exc()
        rc = 2
    sys.exit(rc)
