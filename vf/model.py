"""Reference model of a client / server session.

Written from the SessionState docstring, the method docstrings, the listed properties and
the behaviours pinned by the existing tests - not from the implementation.

state in {NEW, BINDING, OPEN, CLOSED};  open: id -> "search" | "single" (awaiting a final response)
"""

from __future__ import annotations

import typing as t

from . import rfc4511

NEW, BINDING, OPEN, CLOSED = "NEW", "BINDING", "OPEN", "CLOSED"
SASL_IN_PROGRESS = 14
NOTICE = rfc4511.OID_NOTICE_OF_DISCONNECTION

REQUESTS = {"bindRequest", "unbindRequest", "searchRequest", "extendedReq"}
RESPONSES = {"bindResponse", "searchResEntry", "searchResDone", "searchResRef", "extendedResp"}
NON_FINAL = {"searchResEntry", "searchResRef"}


class Verdict(t.NamedTuple):
    accepted: bool
    why: str = ""


class Model:
    def __init__(self, side: str) -> None:
        self.side = side
        self.state = NEW
        self.open: t.Dict[int, str] = {}
        self.opkind: t.Dict[int, str] = {}  # id -> bind / search / extended (request kind of the open operation)
        self.completed: t.List[int] = []
        self.issued: t.List[int] = []  # client: ids handed out; server: ids received
        self.was_closed = False

    def clone(self) -> "Model":
        m = Model(self.side)
        m.state, m.open, m.completed, m.issued, m.was_closed = self.state, dict(self.open), list(self.completed), list(self.issued), self.was_closed
        m.opkind = dict(self.opkind)
        return m

    # ------------------------------------------------------------------ helpers
    def _close(self) -> None:
        self.state = CLOSED
        self.was_closed = True
        # operations in progress die with the session
        self.open = {}

    def _retire(self, mid: int) -> None:
        if mid in self.open:
            del self.open[mid]
            self.completed.append(mid)

    def searches(self) -> t.List[int]:
        return sorted(k for k, v in self.open.items() if v == "search")

    # ------------------------------------------------------------------ client calls
    def client_call(self, op: str) -> Verdict:
        """op in bind / search / extended / unbind.  State changes are applied by ``client_called`` once the id is known."""
        if self.state == CLOSED:
            return Verdict(False, "closed")
        if op == "unbind":
            return Verdict(True)
        if op == "bind":
            if self.open:
                return Verdict(False, "operations in progress")
            return Verdict(True)
        if self.state == BINDING:
            return Verdict(False, "binding")
        return Verdict(True)

    def client_called(self, op: str, mid: t.Optional[int]) -> None:
        if op == "unbind":
            self._close()
            return
        assert mid is not None
        self.issued.append(mid)
        self.open[mid] = "search" if op == "search" else "single"
        self.opkind[mid] = op
        if op == "bind":
            self.state = BINDING
        elif self.state == NEW:
            self.state = OPEN

    # ------------------------------------------------------------------ server calls
    def server_call(self, kind: str, mid: int, code: int = 0, name: t.Optional[str] = None) -> Verdict:
        """kind in bind / entry / ref / done / extended / unbind (name == NOTICE makes an extended response a notice)."""
        if self.state == CLOSED:
            return Verdict(False, "closed")
        if kind == "unbind":
            return Verdict(True)
        is_notice = kind == "extended" and name == NOTICE
        if self.state == BINDING and not (kind == "bind" or is_notice):
            return Verdict(False, "binding")
        if mid not in self.open:
            return Verdict(False, "not an open request")
        return Verdict(True)

    def server_called(self, kind: str, mid: int, code: int = 0, name: t.Optional[str] = None) -> None:
        if kind == "unbind":
            self._close()
            return
        if kind not in ("entry", "ref"):
            self._retire(mid)
        if kind == "bind" and code != SASL_IN_PROGRESS:
            self.state = OPEN
        if kind == "extended" and name == NOTICE:
            self._close()
        if self.state == NEW:
            self.state = OPEN

    def refused_call_leniency(self) -> None:
        """The one tolerated effect of a refused call: NEW may become OPEN (pinned by
        test_fail_server_responds_to_unknown_request). Applied by the interpreter when observed."""
        if self.state == NEW:
            self.state = OPEN

    # ------------------------------------------------------------------ incoming messages
    def incoming(self, kind: str, mid: int, code: int = 0, name: t.Optional[str] = None) -> Verdict:
        """One complete, well-formed message arrives. Applies the state change; Verdict(False) = protocol error."""
        if self.state == CLOSED:
            return Verdict(False, "closed")
        if self.side == "client":
            if kind in REQUESTS:
                self._close()
                return Verdict(False, "request sent to a client" if kind != "unbindRequest" else "unbind")
            if kind == "extendedResp" and name == NOTICE:
                self._close()
                return Verdict(False, "notice of disconnection")
            if mid not in self.open:
                self._close()
                return Verdict(False, "id not in progress")
            if self.open[mid] == "search":
                if kind == "searchResDone":
                    self._retire(mid)
            else:
                self._retire(mid)
            if kind == "bindResponse" and code != SASL_IN_PROGRESS:
                self.state = OPEN
            return Verdict(True)
        # server
        if kind in RESPONSES:
            self._close()
            return Verdict(False, "response sent to a server")
        if kind == "unbindRequest":
            self._close()
            return Verdict(False, "unbind")
        if kind == "bindRequest":
            if self.open:
                self._close()
                return Verdict(False, "bind with operations in progress")
            self.state = BINDING
        elif self.state == NEW:
            self.state = OPEN
        self.open[mid] = "search" if kind == "searchRequest" else "single"
        self.opkind[mid] = {"searchRequest": "search", "bindRequest": "bind"}.get(kind, "extended")
        self.issued.append(mid)
        return Verdict(True)

    # ------------------------------------------------------------------ id references
    def resolve(self, ref: t.Any, strict: bool = False) -> t.Optional[int]:
        """Symbolic id reference -> concrete id, using only the model's own bookkeeping.

        strict=True: None when the referenced class (open / search / single / completed) is empty,
        instead of falling back to a never-used id."""
        k = ref[0]
        n = ref[1] if len(ref) > 1 else 0
        if k == "open" and self.open:
            return sorted(self.open)[n % len(self.open)]
        if k == "search" and self.searches():
            s = self.searches()
            return s[n % len(s)]
        if k == "single":
            s = sorted(i for i, v in self.open.items() if v == "single")
            if s:
                return s[n % len(s)]
        if k == "completed":
            c = [i for i in self.completed if i not in self.open]
            if c:
                return c[n % len(c)]
        if k == "last-completed":
            # the operation that was completed most recently (possibly by an earlier message of the same delivery)
            c = [i for i in self.completed if i not in self.open]
            if c:
                return c[-1]
        if strict and k in ("open", "search", "single", "completed", "last-completed"):
            return None
        if k == "zero":
            return 0
        if k == "neg":
            return -1 - n
        if k == "lit":
            return n
        if k == "alias" and self.open:
            # an id that collides with an operation in progress under truncation / sign confusion
            base = sorted(self.open)[n % len(self.open)]
            return [base + 2**31, base + 2**32, base - 2**31, base + 2**63, base + 2**64, -base, base + 256, base + 65536][n % 8]
        # never / fresh (and fallbacks): an id that was never issued or received
        used = set(self.issued) | set(self.open) | set(self.completed)
        cand = (max(used) if used else 0) + 1 + (n % 5)
        while cand in used or cand <= 0:
            cand += 1
        return cand
