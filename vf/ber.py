"""Independent BER layer written from X.690. Shares no code with sansldap.asn1.

Tlv           a parsed or to-be-written node
read          bytes -> (Tlv, consumed)        full recursive reader (constructed => children)
write         Tlv -> bytes, with per-node encoding knobs (length form)
frame         stream -> complete outer units + "tail incomplete" flag (looks only at outer headers)
int_to_content / content_to_int   two's complement arithmetic via int.to_bytes/from_bytes
"""

from __future__ import annotations

import typing as t

UNIVERSAL, APPLICATION, CONTEXT, PRIVATE = 0, 1, 2, 3


class BerError(Exception):
    pass


class Incomplete(BerError):
    pass


class Tlv:
    __slots__ = ("cls", "constructed", "number", "content", "children", "lenform", "hdr_len", "raw_len_octets",
                 "tag_octets", "indefinite", "raw")

    def __init__(
        self,
        cls: int,
        constructed: bool,
        number: int,
        content: t.Optional[bytes] = None,
        children: t.Optional[t.List["Tlv"]] = None,
        lenform: t.Any = None,
    ) -> None:
        self.cls = cls
        self.constructed = constructed
        self.number = number
        self.content = content  # primitive content (or raw content of an unparsed constructed)
        self.children = children  # constructed children
        self.lenform = lenform  # None = minimal; ("long", k) = long form in k octets
        self.hdr_len = 0
        self.raw_len_octets = b""
        self.tag_octets = b""
        self.indefinite = False
        self.raw: t.Optional[bytes] = None  # content octets exactly as read (set by read())

    def tag(self) -> t.Tuple[int, bool, int]:
        return (self.cls, self.constructed, self.number)

    def __repr__(self) -> str:
        c = "C" if self.constructed else "P"
        k = "UAXP"[self.cls]
        if self.children is not None:
            return f"<{k}{self.number}{c} {self.children!r}>"
        return f"<{k}{self.number}{c} {self.content!r}>"

    def clone(self) -> "Tlv":
        n = Tlv(self.cls, self.constructed, self.number, self.content,
                [c.clone() for c in self.children] if self.children is not None else None, self.lenform)
        return n


# ---------------------------------------------------------------------------------------- arithmetic


def int_to_content(v: int) -> bytes:
    """Minimal two's complement content octets of v (X.690 8.3)."""
    if v >= 0:
        n = v.bit_length() // 8 + 1
    else:
        n = (v + 1).bit_length() // 8 + 1
    return v.to_bytes(n, "big", signed=True)


def content_to_int(b: bytes) -> int:
    if len(b) == 0:
        raise BerError("empty integer content")
    return int.from_bytes(b, "big", signed=True)


def is_minimal_int(b: bytes) -> bool:
    if len(b) == 0:
        return False
    if len(b) == 1:
        return True
    if b[0] == 0x00 and not (b[1] & 0x80):
        return False
    if b[0] == 0xFF and (b[1] & 0x80):
        return False
    return True


# ---------------------------------------------------------------------------------------- identifier / length


def ident_octets(cls: int, constructed: bool, number: int, pad: int = 0) -> bytes:
    first = (cls << 6) | (0x20 if constructed else 0)
    if number < 31 and pad == 0:
        return bytes([first | number])
    groups = []
    n = number
    while True:
        groups.append(n & 0x7F)
        n >>= 7
        if n == 0:
            break
    groups.extend([0] * pad)  # non minimal: leading 0x80 octets
    groups.reverse()
    out = bytearray([first | 31])
    for i, g in enumerate(groups):
        out.append(g | (0x80 if i < len(groups) - 1 else 0))
    return bytes(out)


def length_octets(n: int, form: t.Any = None) -> bytes:
    if form is None:
        if n < 128:
            return bytes([n])
        k = (n.bit_length() + 7) // 8
        return bytes([0x80 | k]) + n.to_bytes(k, "big")
    kind, k = form
    assert kind == "long"
    need = max(1, (n.bit_length() + 7) // 8)
    k = max(k, need)
    if k > 126:
        raise BerError("length form too long")
    return bytes([0x80 | k]) + n.to_bytes(k, "big")


def read_header(data: bytes, pos: int = 0) -> t.Tuple[int, bool, int, int, t.Optional[int], bytes, bytes]:
    """-> (cls, constructed, number, header_len, length or None when indefinite, tag_octets, length_octets)

    Raises Incomplete when the header itself is cut."""
    start = pos
    if pos >= len(data):
        raise Incomplete("no identifier octet")
    o = data[pos]
    pos += 1
    cls = o >> 6
    constructed = bool(o & 0x20)
    number = o & 0x1F
    if number == 31:
        number = 0
        while True:
            if pos >= len(data):
                raise Incomplete("identifier cut")
            o = data[pos]
            pos += 1
            number = (number << 7) | (o & 0x7F)
            if not (o & 0x80):
                break
    tag_oct = bytes(data[start:pos])
    if pos >= len(data):
        raise Incomplete("no length octet")
    lstart = pos
    o = data[pos]
    pos += 1
    length: t.Optional[int]
    if o < 0x80:
        length = o
    elif o == 0x80:
        length = None
    else:
        k = o & 0x7F
        if pos + k > len(data):
            raise Incomplete("length octets cut")
        length = int.from_bytes(data[pos : pos + k], "big")
        pos += k
    return cls, constructed, number, pos - start, length, tag_oct, bytes(data[lstart:pos])


def read(data: bytes, pos: int = 0, depth: int = 0, max_depth: int = 200) -> t.Tuple[Tlv, int]:
    """Recursive reader. Constructed nodes get children when their content parses as TLVs;
    otherwise the raw content is kept (children None)."""
    cls, constructed, number, hl, length, tag_oct, len_oct = read_header(data, pos)
    if length is None:
        raise BerError("indefinite length")
    end = pos + hl + length
    if end > len(data):
        raise Incomplete("content cut")
    content = bytes(data[pos + hl : end])
    node = Tlv(cls, constructed, number)
    node.hdr_len = hl
    node.tag_octets = tag_oct
    node.raw_len_octets = len_oct
    node.raw = content
    if constructed and depth < max_depth:
        kids: t.List[Tlv] = []
        p = 0
        ok = True
        while p < len(content):
            try:
                k, used = read(content, p, depth + 1, max_depth)
            except BerError:
                ok = False
                break
            kids.append(k)
            p += used
        if ok:
            node.children = kids
        else:
            node.content = content
    else:
        node.content = content
    return node, hl + length


def read_all(data: bytes) -> t.List[Tlv]:
    out = []
    p = 0
    while p < len(data):
        n, used = read(data, p)
        out.append(n)
        p += used
    return out


def write(node: Tlv, pad_tag: int = 0) -> bytes:
    if node.children is not None:
        body = b"".join(write(c) for c in node.children)
    else:
        body = node.content or b""
    return ident_octets(node.cls, node.constructed, node.number, pad_tag) + length_octets(len(body), node.lenform) + body


def frame(stream: bytes) -> t.Tuple[t.List[t.Tuple[int, int]], bool, t.Optional[str]]:
    """Split a stream into complete outer units by looking at outer identifier/length octets only.

    -> (list of (start, end), tail_incomplete, hard_error)
    hard_error is set (and framing stops) when an outer header uses the indefinite form."""
    units: t.List[t.Tuple[int, int]] = []
    pos = 0
    n = len(stream)
    while pos < n:
        try:
            _c, _k, _n, hl, length, _t, _l = read_header(stream, pos)
        except Incomplete:
            return units, True, None
        if length is None:
            return units, False, "indefinite"
        end = pos + hl + length
        if end > n:
            return units, True, None
        units.append((pos, end))
        pos = end
    return units, False, None


# ---------------------------------------------------------------------------------------- convenience builders


def prim(cls: int, number: int, content: bytes, lenform: t.Any = None) -> Tlv:
    return Tlv(cls, False, number, content=bytes(content), lenform=lenform)


def cons(cls: int, number: int, children: t.List[Tlv], lenform: t.Any = None) -> Tlv:
    return Tlv(cls, True, number, children=list(children), lenform=lenform)


def octet_string(b: bytes) -> Tlv:
    return prim(UNIVERSAL, 4, b)


def integer(v: int) -> Tlv:
    return prim(UNIVERSAL, 2, int_to_content(v))


def enumerated(v: int) -> Tlv:
    return prim(UNIVERSAL, 10, int_to_content(v))


def boolean(v: bool, true_octet: int = 0xFF) -> Tlv:
    return prim(UNIVERSAL, 1, bytes([true_octet if v else 0]))


def sequence(children: t.List[Tlv]) -> Tlv:
    return cons(UNIVERSAL, 16, children)


def set_of(children: t.List[Tlv]) -> Tlv:
    return cons(UNIVERSAL, 17, children)
