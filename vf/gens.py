"""Hypothesis strategies shared by the property modules. Every case is plain data."""

from __future__ import annotations

import typing as t

from hypothesis import strategies as st

# ---------------------------------------------------------------------------------------- integers

_K = st.integers(0, 72)


@st.composite
def _pow2ish(draw: t.Any) -> int:
    k = draw(_K)
    d = draw(st.sampled_from([-2, -1, 0, 1, 2]))
    s = draw(st.sampled_from([1, -1]))
    return s * (2**k) + d


@st.composite
def _low_zero_negative(draw: t.Any) -> int:
    # -(m * 256^j): negatives whose encoding ends in j zero octets
    j = draw(st.integers(1, 6))
    m = draw(st.one_of(st.integers(1, 300), _pow2ish().map(abs).filter(lambda v: v > 0)))
    return -(m * 256**j)


@st.composite
def _octet_pattern_int(draw: t.Any) -> int:
    # integers described by their two's complement octets: boundary octets over-represented
    n = draw(st.integers(1, 10))
    octs = draw(
        st.lists(st.sampled_from([0x00, 0x01, 0x7F, 0x80, 0x81, 0xFE, 0xFF]) | st.integers(0, 255), min_size=n, max_size=n)
    )
    return int.from_bytes(bytes(octs), "big", signed=True)


def ints() -> st.SearchStrategy[int]:
    return st.one_of(
        st.integers(-300, 300),
        _pow2ish(),
        _low_zero_negative(),
        _octet_pattern_int(),
        st.sampled_from([0, 1, -1, 127, 128, -128, -129, 255, 256, -256, -32768, -65536, 2**31 - 1, -(2**31), 2**63, -(2**63)]),
        st.integers(),
    )


def nonneg_ints() -> st.SearchStrategy[int]:
    return ints().map(abs)


# ---------------------------------------------------------------------------------------- sizes / octets / text

BOUNDARY_SIZES = [0, 1, 126, 127, 128, 129, 254, 255, 256, 257]
BIG_SIZES = [65534, 65535, 65536, 65537]

SPECIAL_OCTETS = b"()*\\\x00=:~<>!&| \x7f\x80\xff'$"


def small_octets(max_size: int = 24) -> st.SearchStrategy[bytes]:
    biased = st.lists(
        st.one_of(st.sampled_from(list(SPECIAL_OCTETS)), st.integers(0, 255), st.sampled_from(list(b"abcXYZ019"))),
        max_size=max_size,
    ).map(bytes)
    utf8 = st.text(max_size=8).map(lambda s: s.encode("utf-8"))
    return st.one_of(st.binary(max_size=max_size), biased, utf8)


@st.composite
def sized_octets(draw: t.Any, sizes: t.Sequence[int]) -> bytes:
    n = draw(st.sampled_from(list(sizes)))
    fill = draw(st.integers(0, 255))
    head = draw(st.binary(max_size=4))
    b = (head + bytes([fill]) * n)[:n]
    return b


def octets(big: bool = False) -> st.SearchStrategy[bytes]:
    parts = [small_octets(), small_octets(), small_octets(), sized_octets(BOUNDARY_SIZES)]
    if big:
        parts.append(sized_octets(BIG_SIZES))
    return st.one_of(*parts)


_TEXT_ALPHA = st.one_of(
    st.characters(exclude_categories=["Cs"]),
    st.sampled_from(list("abcdefgXYZ0123456789 =,.-_()*\\'\"\x00\n\t\x7fé€\U0001f600")),
)


def small_text(max_size: int = 16) -> st.SearchStrategy[str]:
    return st.text(_TEXT_ALPHA, max_size=max_size)


@st.composite
def sized_text(draw: t.Any, sizes: t.Sequence[int]) -> str:
    n = draw(st.sampled_from(list(sizes)))  # size in UTF-8 octets when the filler is ASCII
    ch = draw(st.sampled_from(list("a z0=")))
    return ch * n


def text(big: bool = False) -> st.SearchStrategy[str]:
    parts = [small_text(), small_text(), small_text(), sized_text(BOUNDARY_SIZES)]
    if big:
        parts.append(sized_text(BIG_SIZES))
    return st.one_of(*parts)


# ---------------------------------------------------------------------------------------- chunkings


@st.composite
def chunking(draw: t.Any, n: int) -> t.List[int]:
    """A list of cut positions (sorted, duplicates allowed => empty chunks) for a stream of n bytes,
    or the extreme schedules."""
    mode = draw(st.sampled_from(["one", "bytes", "cuts", "cuts", "cuts", "few"]))
    if mode == "one" or n == 0:
        return []
    if mode == "bytes":
        return list(range(1, n))
    if mode == "few":
        k = draw(st.integers(1, 3))
    else:
        k = draw(st.integers(1, 12))
    cuts = draw(st.lists(st.integers(0, n), min_size=k, max_size=k))
    return sorted(cuts)


def apply_cuts(data: bytes, cuts: t.Sequence[int]) -> t.List[bytes]:
    out = []
    prev = 0
    for c in cuts:
        c = max(prev, min(c, len(data)))
        out.append(data[prev:c])
        prev = c
    out.append(data[prev:])
    return out
