"""Hypothesis strategies shared by the property modules. Every case is plain data."""

from __future__ import annotations

import typing as t

from hypothesis import strategies as st

_MEMO: t.Dict[str, t.Any] = {}


def memo(name: str, build: t.Callable[[], t.Any]) -> t.Any:
    """Build a strategy once per process (constructing strategies inside @composite is slow)."""
    if name not in _MEMO:
        _MEMO[name] = build()
    return _MEMO[name]

# ---------------------------------------------------------------------------------------- integers

_K = st.integers(0, 72)


@st.composite
def _pow2ish(draw: t.Any) -> int:
    k = draw(_K)
    d = draw(st.sampled_from([-2, -1, 0, 1, 2]))
    s = draw(st.sampled_from([1, -1]))
    return s * (2**k) + d


@st.composite
def _low_zero_negative(draw: t.Any) -> int:
    # -(m * 256^j): negatives whose encoding ends in j zero octets
    j = draw(st.integers(1, 6))
    m = draw(st.one_of(st.integers(1, 300), _pow2ish().map(abs).filter(lambda v: v > 0)))
    return -(m * 256**j)


@st.composite
def _octet_pattern_int(draw: t.Any) -> int:
    # integers described by their two's complement octets: boundary octets over-represented
    n = draw(st.integers(1, 10))
    octs = draw(
        st.lists(st.sampled_from([0x00, 0x01, 0x7F, 0x80, 0x81, 0xFE, 0xFF]) | st.integers(0, 255), min_size=n, max_size=n)
    )
    return int.from_bytes(bytes(octs), "big", signed=True)


def ints() -> st.SearchStrategy[int]:
    return st.one_of(
        st.integers(-300, 300),
        _pow2ish(),
        _low_zero_negative(),
        _octet_pattern_int(),
        st.sampled_from([0, 1, -1, 127, 128, -128, -129, 255, 256, -256, -32768, -65536, 2**31 - 1, -(2**31), 2**63, -(2**63)]),
        st.integers(),
    )


def nonneg_ints() -> st.SearchStrategy[int]:
    return ints().map(abs)


# ---------------------------------------------------------------------------------------- sizes / octets / text

BOUNDARY_SIZES = [0, 1, 126, 127, 128, 129, 254, 255, 256, 257]
BIG_SIZES = [65534, 65535, 65536, 65537]

SPECIAL_OCTETS = b"()*\\\x00=:~<>!&| \x7f\x80\xff'$"


def small_octets(max_size: int = 24) -> st.SearchStrategy[bytes]:
    biased = st.lists(
        st.one_of(st.sampled_from(list(SPECIAL_OCTETS)), st.integers(0, 255), st.sampled_from(list(b"abcXYZ019"))),
        max_size=max_size,
    ).map(bytes)
    utf8 = st.text(max_size=8).map(lambda s: s.encode("utf-8"))
    return st.one_of(st.binary(max_size=max_size), biased, utf8)


@st.composite
def sized_octets(draw: t.Any, sizes: t.Sequence[int]) -> bytes:
    n = draw(st.sampled_from(list(sizes)))
    fill = draw(st.integers(0, 255))
    head = draw(st.binary(max_size=4))
    b = (head + bytes([fill]) * n)[:n]
    return b


# single values that code tends to special-case
MAGIC_OCTETS = [b"*", b"**", b"\\2a", b"(", b")", b"\\", b"\x00", b" ", b"=", b"0", b"1", b"TRUE", b"FALSE", b"\xff", b"1.1", b"dn", b"-"]
ATTRIBUTE_NAMES = ["cn", "objectClass", "userCertificate;binary", "cACertificate;BINARY", "cn;lang-en", "member;range=0-1499", "member;range=0-*",
                   "description;lang-ja;phonetic", "2.5.4.3;binary", "jpegPhoto", "*", "+", "1.1", "dn", "binary", ";binary", "x;x-y;binary"]


def octets(big: bool = False) -> st.SearchStrategy[bytes]:
    parts = [small_octets(), small_octets(), small_octets(), sized_octets(BOUNDARY_SIZES), st.sampled_from(MAGIC_OCTETS)]
    if big:
        parts.append(sized_octets(BIG_SIZES))
    return st.one_of(*parts)


# text whose code points change under Unicode normalisation (NFC/NFD/NFKC), non-ASCII digits and letters, case-folding
# oddities: libraries that "tidy" text (normalise, casefold, \d / \w in str patterns) are sensitive to exactly these
NORMALISATION_SENSITIVE = ["e\u0301", "\u212b", "\uf900", "\u0958", "\u1100\u1161", "\u1e9b\u0323", "\ufb01", "\u00df", "\u0130", "\u01c5",
                           "\u0663", "\uff11", "\u0e52", "\u00b2", "\u2160", "\u00aa", "\u0301", "\u200d", "\ufeff", "\u2028"]

# code points at the edges of the classes that text-handling code distinguishes: ASCII / Latin-1 / UTF-8 length classes,
# C0/C1 controls and the separators only str.isspace() knows, the surrogate block's neighbours, noncharacters, planes
BOUNDARY_CHARS = [chr(c) for c in (0x00, 0x0B, 0x1C, 0x1F, 0x20, 0x5B, 0x5C, 0x5D, 0x60, 0x7B, 0x7E, 0x7F, 0x80, 0x85, 0x9F, 0xA0, 0xAD, 0xFF, 0x100,
                                   0x130, 0x131, 0x17F, 0x212A, 0x7FF, 0x800, 0xFFF, 0x1000, 0x2028, 0x2029, 0x3000, 0xD7FF, 0xE000, 0xF8FF,
                                   0xFEFF, 0xFF21, 0xFFFD, 0xFFFE, 0xFFFF, 0x10000, 0x1FFFF, 0xE0001, 0x10FFFF)]

NORMALISATION_CHARS = sorted({c for x in NORMALISATION_SENSITIVE for c in x if ord(c) > 127})

_TEXT_ALPHA = st.one_of(
    st.characters(exclude_categories=["Cs"]),
    st.sampled_from(NORMALISATION_CHARS),
    st.sampled_from(BOUNDARY_CHARS),
    st.sampled_from(list("abcdefgXYZ0123456789 =,.-_()*\\'\"\x00\n\t\x7fé€\U0001f600")),
)


def small_text(max_size: int = 16) -> st.SearchStrategy[str]:
    return st.text(_TEXT_ALPHA, max_size=max_size)


@st.composite
def sized_text(draw: t.Any, sizes: t.Sequence[int]) -> str:
    n = draw(st.sampled_from(list(sizes)))  # size in UTF-8 octets when the filler is ASCII
    ch = draw(st.sampled_from(list("a z0=")))
    return ch * n


@st.composite
def long_unicode_text(draw: t.Any) -> str:
    """Long text of multi-byte characters with a short ASCII prefix (so that every byte alignment occurs)."""
    ch = draw(st.sampled_from(["é", "€", "\U0001f600", "ü", "中"]))
    return "x" * draw(st.integers(0, 5)) + ch * draw(st.sampled_from([20, 40, 63, 64, 100, 128, 200]))


def text(big: bool = False) -> st.SearchStrategy[str]:
    tricky = st.lists(st.sampled_from(NORMALISATION_SENSITIVE + ["a", " ", "=", "1"]), min_size=1, max_size=4).map("".join)
    parts = [small_text(), small_text(), small_text(), small_text(), small_text(), small_text(), sized_text(BOUNDARY_SIZES),
             sized_text(BOUNDARY_SIZES), long_unicode_text(), tricky]
    if big:
        parts.append(sized_text(BIG_SIZES))
    return st.one_of(*parts)


# ---------------------------------------------------------------------------------------- chunkings


@st.composite
def chunking(draw: t.Any, n: int) -> t.List[int]:
    """A list of cut positions (sorted, duplicates allowed => empty chunks) for a stream of n bytes,
    or the extreme schedules."""
    mode = draw(st.sampled_from(["one", "bytes", "cuts", "cuts", "cuts", "few"]))
    if mode == "one" or n == 0:
        return []
    if mode == "bytes":
        return list(range(1, n))
    if mode == "few":
        k = draw(st.integers(1, 3))
    else:
        k = draw(st.integers(1, 12))
    cuts = draw(st.lists(st.integers(0, n), min_size=k, max_size=k))
    return sorted(cuts)


def apply_cuts(data: bytes, cuts: t.Sequence[int]) -> t.List[bytes]:
    out = []
    prev = 0
    for c in cuts:
        c = max(prev, min(c, len(data)))
        out.append(data[prev:c])
        prev = c
    out.append(data[prev:])
    return out


# ---------------------------------------------------------------------------------------- attribute descriptions (RFC 4512)

_ALPHA = "abcdefghijklmnopqrstuvwxyzABCDEFGHIJKLMNOPQRSTUVWXYZ"
_KEYCHAR = _ALPHA + "0123456789-"


@st.composite
def descr(draw: t.Any) -> str:
    first = draw(st.sampled_from(list(_ALPHA)))
    rest = draw(st.text(st.sampled_from(list(_KEYCHAR)), max_size=8))
    return first + rest


@st.composite
def numericoid(draw: t.Any, min_arcs: int = 2) -> str:
    arcs = draw(
        st.lists(
            st.one_of(st.integers(0, 9), st.integers(10, 99999), st.sampled_from([0, 1, 2, 10, 840, 113556])),
            min_size=min_arcs,
            max_size=7,
        )
    )
    return ".".join(str(a) for a in arcs)


@st.composite
def attr_desc(draw: t.Any) -> str:
    base = draw(st.one_of(descr(), descr(), numericoid(), st.sampled_from(["cn", "objectClass", "sAMAccountName", "2.5.4.3", "dn", "dnQualifier", "DN"])))
    opts = draw(st.lists(st.text(st.sampled_from(list(_KEYCHAR)), min_size=1, max_size=6), max_size=2))
    return base + "".join(";" + o for o in opts)


def matching_rule() -> st.SearchStrategy[str]:
    return st.one_of(descr(), numericoid(), st.sampled_from(["caseExactMatch", "2.5.13.5", "1.2.840.113556.1.4.803",
                                                              "dnMatch", "dns", "dn-1", "dnQualifierMatch", "DNmatch", "dn0", "d", "dnn"]))


# ---------------------------------------------------------------------------------------- filters (abstract form)


def filters(
    attrs: t.Optional[st.SearchStrategy[str]] = None,
    values: t.Optional[st.SearchStrategy[bytes]] = None,
    rules: t.Optional[st.SearchStrategy[str]] = None,
    rfc_text_domain: bool = False,
    max_leaves: int = 10,
    allow_empty_sets: bool = True,
) -> st.SearchStrategy[t.Any]:
    """Recursive strategy over the 10 filter node kinds.

    rfc_text_domain=True restricts to trees that have an RFC 4515 text form: non-empty and/or sets,
    substring filters with >= 1 component and no empty component, extensible match with a rule or an
    attribute, matching rule never the bare word 'dn' unless the DN flag is on."""
    A = attrs if attrs is not None else st.one_of(text(), text(), st.sampled_from(ATTRIBUTE_NAMES))
    V = values if values is not None else octets()
    R = rules if rules is not None else (matching_rule() if rfc_text_domain else text())
    if rfc_text_domain:
        R = R.filter(lambda r: r.lower() != "dn")
        SV = V.filter(lambda b: len(b) > 0)
    else:
        SV = V

    @st.composite
    def sub(draw: t.Any) -> t.Any:
        initial = draw(st.none() | SV)
        anys = draw(dups(st.lists(SV, max_size=3)))
        final = draw(st.none() | SV)
        if rfc_text_domain and initial is None and final is None and not anys:
            anys = [draw(SV)]
        return ("sub", draw(A), initial, anys, final)

    @st.composite
    def ext(draw: t.Any) -> t.Any:
        rule = draw(st.none() | R)
        attr = draw(st.none() | A)
        if rfc_text_domain and rule is None and attr is None:
            if draw(st.booleans()):
                rule = draw(R)
            else:
                attr = draw(A)
        return ("ext", rule, attr, draw(V), draw(st.booleans()))

    leaf = st.one_of(
        st.tuples(st.sampled_from(["eq", "ge", "le", "approx"]), A, V),
        st.tuples(st.just("present"), A),
        sub(),
        ext(),
    )
    min_set = 1 if (rfc_text_domain or not allow_empty_sets) else 0

    def extend(kids: t.Any) -> t.Any:
        return st.one_of(
            st.tuples(st.sampled_from(["and", "or"]), dups(st.lists(kids, min_size=min_set, max_size=4))),
            st.tuples(st.just("not"), kids),
        )

    return st.recursive(leaf, extend, max_leaves=max_leaves)


@st.composite
def deep_filter(draw: t.Any, depth_range: t.Tuple[int, int] = (7, 60), leaf: t.Any = None) -> t.Any:
    depth = draw(st.integers(*depth_range))
    f = draw(leaf) if leaf is not None else ("present", "cn")
    for _ in range(depth):
        k = draw(st.sampled_from(["not", "and", "or"]))
        f = ("not", f) if k == "not" else (k, [f])
    return f


def filter_depth(f: t.Any) -> int:
    d = 0
    stack = [(f, 0)]
    while stack:
        n, k = stack.pop()
        d = max(d, k)
        if n[0] in ("and", "or"):
            stack.extend((c, k + 1) for c in n[1])
        elif n[0] == "not":
            stack.append((n[1], k + 1))
    return d


def filter_kinds(f: t.Any) -> t.Set[str]:
    out = set()
    stack = [f]
    while stack:
        n = stack.pop()
        out.add(n[0])
        if n[0] in ("and", "or"):
            stack.extend(n[1])
        elif n[0] == "not":
            stack.append(n[1])
    return out


# ---------------------------------------------------------------------------------------- controls / messages (abstract form)

KNOWN_OIDS = {"1.2.840.113556.1.4.319", "1.2.840.113556.1.4.417", "1.2.840.113556.1.4.2065"}


def controls() -> st.SearchStrategy[t.Any]:
    ctype = st.one_of(numericoid(), text(), st.sampled_from(["1.2.3", "2.16.840.1.113730.3.4.2", ""])).filter(
        lambda s: s not in KNOWN_OIDS
    )
    generic = st.tuples(st.just("generic"), ctype, st.booleans(), st.none() | octets())
    paged = st.tuples(st.just("paged"), st.booleans(), ints(), octets())
    sd = st.tuples(st.just("showDeleted"), st.booleans())
    sdl = st.tuples(st.just("showDeactivatedLink"), st.booleans())
    return st.one_of(generic, generic, paged, sd, sdl)


def control_lists() -> st.SearchStrategy[t.List[t.Any]]:
    return st.one_of(st.just([]), dups(st.lists(controls(), max_size=3)))


def result_codes() -> st.SearchStrategy[int]:
    known = [0, 1, 2, 3, 4, 5, 6, 7, 8, 10, 11, 12, 13, 14, 16, 17, 18, 19, 20, 21, 32, 33, 34, 36, 48, 49, 50, 51, 52, 53,
             54, 64, 65, 66, 67, 68, 69, 71, 80]
    return st.one_of(st.sampled_from(known), st.sampled_from([9, 15, 22, 81, 118, 4096, 70000, -1, -128]), ints())


def results(big: bool = False) -> st.SearchStrategy[t.Any]:
    return st.fixed_dictionaries(
        {
            "code": result_codes(),
            "matched": text(big),
            "diag": text(big),
            "referral": st.none() | dups(st.lists(text(), max_size=3)),
        }
    )


def msg_ids() -> st.SearchStrategy[int]:
    return st.one_of(st.integers(0, 300), st.sampled_from([2**31 - 1, 2**31, 127, 128, 255, 256, 65535, 65536]), ints())


def dups(lists: t.Any) -> t.Any:
    """The list strategy, with (1 time in 4, when non-empty) one element repeated: right after itself, at the end, or
    both - code that goes through a set / dict, or that treats the first or last element specially, needs repeats."""
    def rep(x: t.Tuple[t.List[t.Any], int, int]) -> t.List[t.Any]:
        lst, k, how = x
        if not lst or how < 9:
            return lst
        i = k % len(lst)
        out = list(lst)
        if how in (9, 11):
            out.insert(i + 1, lst[i])
        if how in (10, 11):
            out.append(lst[i])
        return out

    return st.tuples(lists, st.integers(0, 63), st.integers(0, 11)).map(rep)


def _long(elem: t.Any, small: t.Any) -> t.Any:
    """Mostly the small list strategy; sometimes a long run of one element (list lengths crossing 2^7/2^8 and beyond)."""
    long_run = st.tuples(st.sampled_from([64, 127, 128, 129, 255, 256, 300]), elem).map(lambda ne: [ne[1]] * ne[0])
    return st.integers(0, 15).flatmap(lambda k: long_run if k == 0 else small)


def known_oids() -> t.List[str]:
    """OIDs the library itself knows (extended operations, controls), harvested at run time, plus a few well-known ones:
    code that special-cases an OID is only reached by inputs that carry it."""
    out = ["1.3.6.1.4.1.1466.20036", "1.3.6.1.4.1.1466.20037", "1.3.6.1.4.1.4203.1.11.3", "1.3.6.1.4.1.4203.1.11.1", "1.3.6.1.1.8",
           "1.2.840.113556.1.4.319", "1.2.840.113556.1.4.417", "1.2.840.113556.1.4.2065", "2.16.840.1.113730.3.4.2"]
    try:
        import enum

        import sansldap

        for v in vars(sansldap).values():
            if isinstance(v, type) and issubclass(v, enum.Enum):
                for m in v:
                    if isinstance(m.value, str) and m.value[:1].isdigit() and "." in m.value and m.value not in out:
                        out.append(m.value)
            ct = getattr(v, "control_type", None)
            if isinstance(ct, str) and ct and ct not in out:
                out.append(ct)
    except Exception:
        pass
    return out


def message(kinds: t.Optional[t.Sequence[str]] = None, big: bool = False, filt: t.Any = None, ids: t.Any = None) -> st.SearchStrategy[t.Any]:
    F = filt if filt is not None else st.one_of(filters(), filters(), deep_filter((7, 40)))
    ID = ids if ids is not None else msg_ids()
    T = text(big)
    O = octets(big)
    base = {"id": ID, "controls": control_lists()}
    auth = st.one_of(
        st.tuples(st.just("simple"), T),
        st.tuples(st.just("sasl"), text(), st.none() | O),
    )
    by_kind = {
        "bindRequest": dict(version=st.one_of(st.just(3), st.integers(1, 127), ints()), name=T, auth=auth),
        "bindResponse": dict(result=results(big), sasl=st.none() | O),
        "unbindRequest": dict(),
        "searchRequest": dict(
            base=T,
            scope=st.sampled_from([0, 1, 2]),
            deref=st.sampled_from([0, 1, 2, 3]),
            size=st.one_of(st.just(0), nonneg_ints(), ints()),
            time=st.one_of(st.just(0), nonneg_ints(), ints()),
            typesOnly=st.booleans(),
            filter=F,
            attributes=_long(st.sampled_from(["cn", "*", "1.1", "objectClass"]), dups(st.lists(st.one_of(text(), st.sampled_from(ATTRIBUTE_NAMES)), max_size=4))),
        ),
        "searchResEntry": dict(name=T, attributes=_long(
            st.tuples(st.sampled_from(["cn", "member"]), st.lists(small_octets(4), max_size=2)),
            dups(st.lists(st.tuples(st.one_of(text(), text(), st.sampled_from(ATTRIBUTE_NAMES)),
                                    st.one_of(dups(st.lists(O, max_size=3)), st.lists(O, max_size=3), st.just([b"v"] * 200), st.just([b"dup", b"dup"]))), max_size=4)))),
        "searchResDone": dict(result=results(big)),
        "searchResRef": dict(uris=_long(st.sampled_from(["ldap://a/dc=x", ""]), dups(st.lists(text(), max_size=4)))),
        "extendedReq": dict(name=st.one_of(text(), text(), st.sampled_from(known_oids())), value=st.none() | O),
        "extendedResp": dict(result=results(big), name=st.one_of(st.none(), text(), text(), st.sampled_from(known_oids())), value=st.none() | O),
    }
    ks = list(kinds) if kinds else list(by_kind)
    alts = []
    for k in ks:
        d = dict(base)
        d["kind"] = st.just(k)
        d.update(by_kind[k])
        alts.append(st.fixed_dictionaries(d))
    return st.one_of(*alts)
