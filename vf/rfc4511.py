"""Reference encoder and strict reference decoder for the LDAP messages the library supports.

Written from the ASN.1 of RFC 4511 section 4 / Appendix B, RFC 2696 (paged results) and
MS-ADTS (the two value-less controls). Works on *abstract values* (plain data) and the
independent BER layer in ber.py; shares nothing with sansldap.

Abstract message  dict(kind=..., id=int, controls=[control...], <fields>)
  bindRequest     version:int name:str auth:("simple", str) | ("sasl", str, bytes|None)
  bindResponse    result:RESULT sasl:bytes|None
  unbindRequest
  searchRequest   base:str scope:int deref:int size:int time:int typesOnly:bool filter:FILTER attributes:[str]
  searchResEntry  name:str attributes:[(str, [bytes])]
  searchResDone   result:RESULT
  searchResRef    uris:[str]
  extendedReq     name:str value:bytes|None
  extendedResp    result:RESULT name:str|None value:bytes|None
RESULT            dict(code:int, matched:str, diag:str, referral:[str]|None)
FILTER            ("and",[F]) ("or",[F]) ("not",F) ("eq",a,v) ("sub",a,initial|None,[any],final|None)
                  ("ge",a,v) ("le",a,v) ("present",a) ("approx",a,v) ("ext",rule|None,attr|None,value,dn:bool)
control           ("generic", type:str, critical:bool, value:bytes|None) ("paged", critical, size:int, cookie:bytes)
                  ("showDeleted", critical) ("showDeactivatedLink", critical)
"""

from __future__ import annotations

import collections
import typing as t

from . import ber
from .ber import APPLICATION, CONTEXT, PRIVATE, UNIVERSAL, Tlv

OID_PAGED = "1.2.840.113556.1.4.319"
OID_SHOW_DELETED = "1.2.840.113556.1.4.417"
OID_SHOW_DEACTIVATED_LINK = "1.2.840.113556.1.4.2065"
KNOWN_OIDS = {OID_PAGED, OID_SHOW_DELETED, OID_SHOW_DEACTIVATED_LINK}
OID_NOTICE_OF_DISCONNECTION = "1.3.6.1.4.1.1466.20036"

APP = {
    "bindRequest": 0,
    "bindResponse": 1,
    "unbindRequest": 2,
    "searchRequest": 3,
    "searchResEntry": 4,
    "searchResDone": 5,
    "searchResRef": 19,
    "extendedReq": 23,
    "extendedResp": 24,
}
APP_BY_NUM = {v: k for k, v in APP.items()}
KINDS = list(APP)
REQUEST_KINDS = {"bindRequest", "unbindRequest", "searchRequest", "extendedReq"}

FILTER_TAG = {"and": 0, "or": 1, "not": 2, "eq": 3, "sub": 4, "ge": 5, "le": 6, "present": 7, "approx": 8, "ext": 9}
FILTER_BY_TAG = {v: k for k, v in FILTER_TAG.items()}


# ---------------------------------------------------------------------------------------- knobs


class Knobs:
    """Encoding freedoms a conforming peer may use, driven by a choice tape (plain list of ints).

    The tape is read cyclically; an empty tape yields 0 = the canonical choice everywhere, so
    ``Knobs(None)`` is the canonical encoder."""

    def __init__(self, tape: t.Optional[t.Sequence[int]] = None, ad_style: bool = False,
                 kinds: t.Iterable[str] = ("length", "true", "default", "trailing")) -> None:
        self.tape = list(tape or [])
        self.pos = 0
        self.ad_style = ad_style
        self.kinds = set(kinds)
        self.applied: t.Counter[str] = collections.Counter()
        self.trailing_at: t.Counter[str] = collections.Counter()

    def pick(self, n: int) -> int:
        if not self.tape:
            return 0
        # the tape is read cyclically so that late nodes (filters, controls) get knobs too;
        # the empty tape is the canonical encoder and is what the shrinker converges to
        v = self.tape[self.pos % len(self.tape)] % n
        self.pos += 1
        return v

    def lenform(self) -> t.Any:
        if self.ad_style:
            self.applied["length:ad-4-octets"] += 1
            return ("long", 4)
        if "length" not in self.kinds and "length-wide" not in self.kinds:
            return None
        r = self.pick(8)
        if r < 4:
            return None
        if r == 4:
            k = 1
        elif r == 5:
            k = 2
        elif r == 6:
            k = 4
        elif "length-wide" in self.kinds:
            # X.690 8.1.3.5 allows up to 126 length octets (leading zero octets included)
            k = [3, 5, 7, 8, 9, 10, 12, 16, 17, 33, 64, 126][self.pick(12)]
        else:
            k = 3 + self.pick(6)
        self.applied[f"length:long-{k}"] += 1
        return ("long", k)

    def true_octet(self) -> int:
        if "true" not in self.kinds:
            return 0xFF
        r = self.pick(4)
        if r < 2:
            return 0xFF
        o = 1 + self.pick(254)  # 1..254
        self.applied["true:non-ff"] += 1
        return o

    def explicit_default(self) -> bool:
        if "default" not in self.kinds:
            return False
        if self.pick(3) == 2:
            self.applied["default:explicit-false"] += 1
            return True
        return False

    _ANY_TAGS = [(UNIVERSAL, 1), (UNIVERSAL, 2), (UNIVERSAL, 4), (UNIVERSAL, 10), (UNIVERSAL, 16), (UNIVERSAL, 17),
                 (UNIVERSAL, 5), (UNIVERSAL, 12)] + [(CONTEXT, n) for n in range(12)] + [(APPLICATION, n) for n in (0, 1, 3, 4, 23, 24)]

    def _trailing_any(self, where: str, avoid: t.Collection[t.Tuple[int, int]]) -> t.List[Tlv]:
        """Trailing elements with any tag that no component of the enclosing type uses (``avoid`` lists the classes /
        tags the enclosing type does use, None as number = the whole class): RFC 4511 section 4 - trailing SEQUENCE
        components whose tags are not recognised are ignored."""
        r = self.pick(5)
        n = 0 if r < 3 else r - 2
        out = []
        for _ in range(n):
            cls, num = self._ANY_TAGS[self.pick(len(self._ANY_TAGS))]
            if (cls, num) in avoid or (cls, None) in avoid:
                cls = PRIVATE
            shape = self.pick(4)
            if shape == 0:
                node = ber.prim(cls, num, b"\xff")
            elif shape == 1:
                node = ber.prim(cls, num, bytes(self.pick(256) for _ in range(self.pick(5))))
            elif shape == 2:
                node = ber.cons(cls, num, [ber.octet_string(bytes(self.pick(256) for _ in range(self.pick(5))))])
            else:
                node = ber.prim(cls, num, b"")
            node.lenform = self.lenform()
            out.append(node)
            self.applied["trailing-any"] += 1
            self.trailing_at[where] += 1
        return out

    def trailing(self, where: str, avoid: t.Collection[t.Tuple[int, int]] = ()) -> t.List[Tlv]:
        if "trailing-any" in self.kinds:
            return self._trailing_any(where, avoid)
        if "trailing" not in self.kinds:
            return []
        r = self.pick(5)
        n = 0 if r < 3 else r - 2
        out = []
        for _ in range(n):
            c = self.pick(3)
            if c == 0:
                cls, num = PRIVATE, self.pick(40)
            elif c == 1:
                cls, num = CONTEXT, 12 + self.pick(19)
            else:
                cls, num = (PRIVATE if self.pick(2) else CONTEXT), 31 + self.pick(300)
            body = bytes(self.pick(256) for _ in range(self.pick(5)))
            if self.pick(2):
                node = ber.cons(cls, num, [ber.octet_string(body)])
            else:
                node = ber.prim(cls, num, body)
            node.lenform = self.lenform()
            out.append(node)
            self.applied["trailing"] += 1
            self.trailing_at[where] += 1
        return out


CANON = None  # Knobs(None) built on demand


def _k(knobs: t.Optional[Knobs]) -> Knobs:
    return knobs if knobs is not None else Knobs(None, kinds=())


# ---------------------------------------------------------------------------------------- encoder


def _u8(s: str) -> bytes:
    return s.encode("utf-8")


def _p(node: Tlv, k: Knobs) -> Tlv:
    node.lenform = k.lenform()
    return node


def _ostr(b: bytes, k: Knobs) -> Tlv:
    return _p(ber.octet_string(b), k)


def _ctxp(num: int, b: bytes, k: Knobs) -> Tlv:
    return _p(ber.prim(CONTEXT, num, b), k)


def _bool(v: bool, k: Knobs, cls: int = UNIVERSAL, num: int = 1) -> Tlv:
    octet = (k.true_octet() if v else 0)
    return _p(ber.prim(cls, num, bytes([octet])), k)


def _int(v: int, k: Knobs) -> Tlv:
    return _p(ber.integer(v), k)


def _enum(v: int, k: Knobs) -> Tlv:
    return _p(ber.enumerated(v), k)


def enc_filter(f: t.Any, k: Knobs) -> Tlv:
    kind = f[0]
    if kind == "custom":  # ("custom", context tag number, content octets): a filter choice the RFC does not define
        return _ctxp(f[1], f[2], k)
    tag = FILTER_TAG[kind]
    if kind in ("and", "or"):
        return _p(ber.cons(CONTEXT, tag, [enc_filter(x, k) for x in f[1]]), k)
    if kind == "not":
        return _p(ber.cons(CONTEXT, tag, [enc_filter(f[1], k)]), k)
    if kind in ("eq", "ge", "le", "approx"):
        kids = [_ostr(_u8(f[1]), k), _ostr(f[2], k)]
        kids += k.trailing("AttributeValueAssertion", [(UNIVERSAL, 4)])
        return _p(ber.cons(CONTEXT, tag, kids), k)
    if kind == "present":
        return _ctxp(tag, _u8(f[1]), k)
    if kind == "sub":
        subs = []
        if f[2] is not None:
            subs.append(_ctxp(0, f[2], k))
        for a in f[3]:
            subs.append(_ctxp(1, a, k))
        if f[4] is not None:
            subs.append(_ctxp(2, f[4], k))
        kids = [_ostr(_u8(f[1]), k), _p(ber.sequence(subs), k)]
        kids += k.trailing("SubstringFilter", [(UNIVERSAL, 4), (UNIVERSAL, 16)])
        return _p(ber.cons(CONTEXT, tag, kids), k)
    if kind == "ext":
        _, rule, attr, value, dn = f
        kids = []
        if rule is not None:
            kids.append(_ctxp(1, _u8(rule), k))
        if attr is not None:
            kids.append(_ctxp(2, _u8(attr), k))
        kids.append(_ctxp(3, value, k))
        if dn:
            kids.append(_bool(True, k, CONTEXT, 4))
        elif k.explicit_default():
            kids.append(_bool(False, k, CONTEXT, 4))
        kids += k.trailing("MatchingRuleAssertion", [(CONTEXT, None)])
        return _p(ber.cons(CONTEXT, tag, kids), k)
    raise ValueError(f"unknown filter kind {kind}")


def enc_control(c: t.Any, k: Knobs) -> Tlv:
    kind = c[0]
    if kind == "generic":
        _, ctype, critical, value = c
    elif kind == "paged":
        _, critical, size, cookie = c
        ctype = OID_PAGED
        inner = [_int(size, k), _ostr(cookie, k)] + k.trailing("pagedResultsValue", [(UNIVERSAL, 2), (UNIVERSAL, 4)])
        value = ber.write(_p(ber.sequence(inner), k))
    elif kind == "showDeleted":
        ctype, critical, value = OID_SHOW_DELETED, c[1], None
    elif kind == "showDeactivatedLink":
        ctype, critical, value = OID_SHOW_DEACTIVATED_LINK, c[1], None
    else:
        raise ValueError(kind)
    kids = [_ostr(_u8(ctype), k)]
    if critical:
        kids.append(_bool(True, k))
    elif k.explicit_default():
        kids.append(_bool(False, k))
    if value is not None:
        kids.append(_ostr(value, k))
    kids += k.trailing("Control", [(UNIVERSAL, 1), (UNIVERSAL, 4)])
    return _p(ber.sequence(kids), k)


_RESULT_TAGS = [(UNIVERSAL, 10), (UNIVERSAL, 4), (CONTEXT, None)]


def _enc_result(r: t.Any, k: Knobs) -> t.List[Tlv]:
    kids = [_enum(r["code"], k), _ostr(_u8(r["matched"]), k), _ostr(_u8(r["diag"]), k)]
    if r["referral"] is not None:
        kids.append(_p(ber.cons(CONTEXT, 3, [_ostr(_u8(u), k) for u in r["referral"]]), k))
    return kids


def enc_op(m: t.Any, k: Knobs) -> Tlv:
    kind = m["kind"]
    num = APP[kind]
    if kind == "bindRequest":
        auth = m["auth"]
        if auth[0] == "simple":
            a = _ctxp(0, _u8(auth[1]), k)
        elif auth[0] == "custom":  # ("custom", context tag number, content octets)
            a = _ctxp(auth[1], auth[2], k)
        else:
            akids = [_ostr(_u8(auth[1]), k)]
            if auth[2] is not None:
                akids.append(_ostr(auth[2], k))
            akids += k.trailing("SaslCredentials", [(UNIVERSAL, 4)])
            a = _p(ber.cons(CONTEXT, 3, akids), k)
        kids = [_int(m["version"], k), _ostr(_u8(m["name"]), k), a] + k.trailing("BindRequest", [(UNIVERSAL, 2), (UNIVERSAL, 4), (CONTEXT, None)])
        return _p(ber.cons(APPLICATION, num, kids), k)
    if kind == "bindResponse":
        kids = _enc_result(m["result"], k)
        if m["sasl"] is not None:
            kids.append(_ctxp(7, m["sasl"], k))
        kids += k.trailing("BindResponse", _RESULT_TAGS)
        return _p(ber.cons(APPLICATION, num, kids), k)
    if kind == "unbindRequest":
        return _p(ber.prim(APPLICATION, num, b""), k)
    if kind == "searchRequest":
        kids = [
            _ostr(_u8(m["base"]), k),
            _enum(m["scope"], k),
            _enum(m["deref"], k),
            _int(m["size"], k),
            _int(m["time"], k),
            _bool(m["typesOnly"], k),
            enc_filter(m["filter"], k),
            _p(ber.sequence([_ostr(_u8(a), k) for a in m["attributes"]]), k),
        ] + k.trailing("SearchRequest", [(UNIVERSAL, 4), (UNIVERSAL, 10), (UNIVERSAL, 2), (UNIVERSAL, 1), (UNIVERSAL, 16), (CONTEXT, None)])
        return _p(ber.cons(APPLICATION, num, kids), k)
    if kind == "searchResEntry":
        attrs = []
        for name, vals in m["attributes"]:
            pa = [_ostr(_u8(name), k), _p(ber.set_of([_ostr(v, k) for v in vals]), k)] + k.trailing("PartialAttribute", [(UNIVERSAL, 4), (UNIVERSAL, 17)])
            attrs.append(_p(ber.sequence(pa), k))
        kids = [_ostr(_u8(m["name"]), k), _p(ber.sequence(attrs), k)] + k.trailing("SearchResultEntry", [(UNIVERSAL, 4), (UNIVERSAL, 16)])
        return _p(ber.cons(APPLICATION, num, kids), k)
    if kind == "searchResDone":
        return _p(ber.cons(APPLICATION, num, _enc_result(m["result"], k) + k.trailing("SearchResultDone", _RESULT_TAGS)), k)
    if kind == "searchResRef":
        return _p(ber.cons(APPLICATION, num, [_ostr(_u8(u), k) for u in m["uris"]]), k)
    if kind == "extendedReq":
        kids = [_ctxp(0, _u8(m["name"]), k)]
        if m["value"] is not None:
            kids.append(_ctxp(1, m["value"], k))
        kids += k.trailing("ExtendedRequest", [(CONTEXT, None)])
        return _p(ber.cons(APPLICATION, num, kids), k)
    if kind == "extendedResp":
        kids = _enc_result(m["result"], k)
        if m["name"] is not None:
            kids.append(_ctxp(10, _u8(m["name"]), k))
        if m["value"] is not None:
            kids.append(_ctxp(11, m["value"], k))
        kids += k.trailing("ExtendedResponse", _RESULT_TAGS)
        return _p(ber.cons(APPLICATION, num, kids), k)
    raise ValueError(kind)


def encode_tlv(m: t.Any, knobs: t.Optional[Knobs] = None) -> Tlv:
    k = _k(knobs)
    kids = [_int(m["id"], k), enc_op(m, k)]
    if m["controls"]:
        kids.append(_p(ber.cons(CONTEXT, 0, [enc_control(c, k) for c in m["controls"]]), k))
    kids += k.trailing("LDAPMessage", [(UNIVERSAL, 2), (APPLICATION, None), (CONTEXT, None)])
    return _p(ber.sequence(kids), k)


def encode(m: t.Any, knobs: t.Optional[Knobs] = None) -> bytes:
    return ber.write(encode_tlv(m, knobs))


# ---------------------------------------------------------------------------------------- decoder


class Deviation(t.NamedTuple):
    code: str
    path: str


class DecodeError(Exception):
    def __init__(self, code: str, path: str, msg: str = "") -> None:
        super().__init__(f"{code} at {path} {msg}")
        self.code = code
        self.path = path


class _Dec:
    def __init__(self) -> None:
        self.devs: t.List[Deviation] = []

    def dev(self, code: str, path: str) -> None:
        self.devs.append(Deviation(code, path))

    # -- node level helpers
    def expect(self, node: Tlv, cls: int, num: int, constructed: bool, path: str) -> None:
        if node.cls != cls or node.number != num:
            raise DecodeError("wrong-tag", path, f"got {node.tag()} expected {(cls, constructed, num)}")
        if node.constructed != constructed:
            self.dev("constructed-bit", path)

    def kids(self, node: Tlv, path: str) -> t.List[Tlv]:
        if node.children is not None:
            return node.children
        if not node.constructed:
            # primitive where constructed expected (already reported): try to parse content
            try:
                return ber.read_all(node.raw or b"")
            except ber.BerError:
                raise DecodeError("malformed-content", path)
        raise DecodeError("malformed-content", path)

    def raw(self, node: Tlv) -> bytes:
        if node.raw is not None:
            return node.raw
        if node.children is not None:
            return b"".join(ber.write(c) for c in node.children)
        return node.content or b""

    def ostr(self, node: Tlv, path: str, cls: int = UNIVERSAL, num: int = 4) -> bytes:
        self.expect(node, cls, num, False, path)
        return self.raw(node)

    def lstr(self, node: Tlv, path: str, cls: int = UNIVERSAL, num: int = 4) -> str:
        b = self.ostr(node, path, cls, num)
        try:
            return b.decode("utf-8")
        except UnicodeDecodeError:
            raise DecodeError("utf8", path)

    def integer(self, node: Tlv, path: str, num: int = 2) -> int:
        self.expect(node, UNIVERSAL, num, False, path)
        b = self.raw(node)
        if len(b) == 0:
            raise DecodeError("int-empty", path)
        if not ber.is_minimal_int(b):
            self.dev("int-non-minimal", path)
        return ber.content_to_int(b)

    def boolean(self, node: Tlv, path: str, cls: int = UNIVERSAL, num: int = 1) -> bool:
        self.expect(node, cls, num, False, path)
        b = self.raw(node)
        if len(b) != 1:
            raise DecodeError("bool-length", path)
        if b[0] not in (0x00, 0xFF):
            self.dev("bool-octet", path)
        return b[0] != 0

    def done(self, rest: t.List[Tlv], path: str) -> None:
        for _ in rest:
            self.dev("trailing-element", path)

    # -- types
    def result(self, kids: t.List[Tlv], path: str) -> t.Tuple[t.Any, t.List[Tlv]]:
        if len(kids) < 3:
            raise DecodeError("missing-component", path)
        code = self.integer(kids[0], path + ".resultCode", 10)
        matched = self.lstr(kids[1], path + ".matchedDN")
        diag = self.lstr(kids[2], path + ".diagnosticMessage")
        rest = kids[3:]
        referral = None
        if rest and rest[0].cls == CONTEXT and rest[0].number == 3:
            self.expect(rest[0], CONTEXT, 3, True, path + ".referral")
            referral = [self.lstr(u, path + ".referral.uri") for u in self.kids(rest[0], path + ".referral")]
            rest = rest[1:]
        return {"code": code, "matched": matched, "diag": diag, "referral": referral}, rest

    def filter(self, node: Tlv, path: str) -> t.Any:
        if node.cls != CONTEXT or node.number not in FILTER_BY_TAG:
            raise DecodeError("wrong-tag", path, f"filter choice {node.tag()}")
        kind = FILTER_BY_TAG[node.number]
        p = f"{path}.{kind}"
        if kind == "present":
            return ("present", self.lstr(node, p, CONTEXT, node.number))
        self.expect(node, CONTEXT, node.number, True, p)
        kids = self.kids(node, p)
        if kind in ("and", "or"):
            return (kind, [self.filter(c, p) for c in kids])
        if kind == "not":
            if len(kids) < 1:
                raise DecodeError("missing-component", p)
            self.done(kids[1:], p)
            return ("not", self.filter(kids[0], p))
        if kind in ("eq", "ge", "le", "approx"):
            if len(kids) < 2:
                raise DecodeError("missing-component", p)
            self.done(kids[2:], p)
            return (kind, self.lstr(kids[0], p + ".attributeDesc"), self.ostr(kids[1], p + ".assertionValue"))
        if kind == "sub":
            if len(kids) < 2:
                raise DecodeError("missing-component", p)
            self.done(kids[2:], p)
            attr = self.lstr(kids[0], p + ".type")
            self.expect(kids[1], UNIVERSAL, 16, True, p + ".substrings")
            initial = final = None
            anys: t.List[bytes] = []
            subs = self.kids(kids[1], p + ".substrings")
            for idx, s in enumerate(subs):
                if s.cls != CONTEXT or s.number not in (0, 1, 2):
                    raise DecodeError("wrong-tag", p + ".substrings", f"{s.tag()}")
                v = self.ostr(s, p + ".substrings.value", CONTEXT, s.number)
                if s.number == 0:
                    if idx != 0:
                        raise DecodeError("substring-order", p + ".substrings")
                    initial = v
                elif s.number == 2:
                    if idx != len(subs) - 1:
                        raise DecodeError("substring-order", p + ".substrings")
                    final = v
                else:
                    anys.append(v)
            return ("sub", attr, initial, anys, final)
        # extensibleMatch
        rule = attr = None
        value: t.Optional[bytes] = None
        dn = False
        i = 0
        if i < len(kids) and kids[i].cls == CONTEXT and kids[i].number == 1:
            rule = self.lstr(kids[i], p + ".matchingRule", CONTEXT, 1)
            i += 1
        if i < len(kids) and kids[i].cls == CONTEXT and kids[i].number == 2:
            attr = self.lstr(kids[i], p + ".type", CONTEXT, 2)
            i += 1
        if i < len(kids) and kids[i].cls == CONTEXT and kids[i].number == 3:
            value = self.ostr(kids[i], p + ".matchValue", CONTEXT, 3)
            i += 1
        else:
            raise DecodeError("missing-component", p + ".matchValue")
        if i < len(kids) and kids[i].cls == CONTEXT and kids[i].number == 4:
            dn = self.boolean(kids[i], p + ".dnAttributes", CONTEXT, 4)
            if not dn:
                self.dev("default-encoded", p + ".dnAttributes")
            i += 1
        self.done(kids[i:], p)
        return ("ext", rule, attr, value, dn)

    def control(self, node: Tlv, path: str) -> t.Any:
        self.expect(node, UNIVERSAL, 16, True, path)
        kids = self.kids(node, path)
        if not kids:
            raise DecodeError("missing-component", path)
        ctype = self.lstr(kids[0], path + ".controlType")
        i = 1
        critical = False
        if i < len(kids) and kids[i].cls == UNIVERSAL and kids[i].number == 1:
            critical = self.boolean(kids[i], path + ".criticality")
            if not critical:
                self.dev("default-encoded", path + ".criticality")
            i += 1
        value = None
        if i < len(kids) and kids[i].cls == UNIVERSAL and kids[i].number == 4:
            value = self.ostr(kids[i], path + ".controlValue")
            i += 1
        self.done(kids[i:], path)
        if ctype == OID_PAGED:
            p = path + "[pagedResults].controlValue"
            if value is None:
                raise DecodeError("missing-component", p)
            try:
                inner, used = ber.read(value)
            except ber.BerError:
                raise DecodeError("malformed-content", p)
            if used != len(value):
                self.dev("trailing-bytes", p)
            self.expect(inner, UNIVERSAL, 16, True, p)
            ik = self.kids(inner, p)
            if len(ik) < 2:
                raise DecodeError("missing-component", p)
            size = self.integer(ik[0], p + ".size")
            cookie = self.ostr(ik[1], p + ".cookie")
            self.done(ik[2:], p)
            return ("paged", critical, size, cookie)
        if ctype in (OID_SHOW_DELETED, OID_SHOW_DEACTIVATED_LINK):
            if value is not None:
                self.dev("unexpected-control-value", path)
            return ("showDeleted" if ctype == OID_SHOW_DELETED else "showDeactivatedLink", critical)
        return ("generic", ctype, critical, value)

    def op(self, node: Tlv, path: str) -> t.Dict[str, t.Any]:
        if node.cls != APPLICATION or node.number not in APP_BY_NUM:
            raise DecodeError("wrong-tag", path, f"protocolOp {node.tag()}")
        kind = APP_BY_NUM[node.number]
        p = f"{path}[{kind}]"
        if kind == "unbindRequest":
            self.expect(node, APPLICATION, node.number, False, p)
            if len(self.raw(node)) != 0:
                self.dev("null-not-empty", p)
            return {"kind": kind}
        self.expect(node, APPLICATION, node.number, True, p)
        kids = self.kids(node, p)
        if kind == "bindRequest":
            if len(kids) < 3:
                raise DecodeError("missing-component", p)
            version = self.integer(kids[0], p + ".version")
            name = self.lstr(kids[1], p + ".name")
            a = kids[2]
            auth: t.Any
            if a.cls == CONTEXT and a.number == 0:
                auth = ("simple", self.lstr(a, p + ".authentication.simple", CONTEXT, 0))
            elif a.cls == CONTEXT and a.number == 3:
                pp = p + ".authentication.sasl"
                self.expect(a, CONTEXT, 3, True, pp)
                ak = self.kids(a, pp)
                if not ak:
                    raise DecodeError("missing-component", pp)
                mech = self.lstr(ak[0], pp + ".mechanism")
                creds = None
                i = 1
                if i < len(ak) and ak[i].cls == UNIVERSAL and ak[i].number == 4:
                    creds = self.ostr(ak[i], pp + ".credentials")
                    i += 1
                self.done(ak[i:], pp)
                auth = ("sasl", mech, creds)
            else:
                raise DecodeError("wrong-tag", p + ".authentication", f"{a.tag()}")
            self.done(kids[3:], p)
            return {"kind": kind, "version": version, "name": name, "auth": auth}
        if kind == "bindResponse":
            res, rest = self.result(kids, p)
            sasl = None
            if rest and rest[0].cls == CONTEXT and rest[0].number == 7:
                sasl = self.ostr(rest[0], p + ".serverSaslCreds", CONTEXT, 7)
                rest = rest[1:]
            self.done(rest, p)
            return {"kind": kind, "result": res, "sasl": sasl}
        if kind == "searchRequest":
            if len(kids) < 8:
                raise DecodeError("missing-component", p)
            out = {
                "kind": kind,
                "base": self.lstr(kids[0], p + ".baseObject"),
                "scope": self.integer(kids[1], p + ".scope", 10),
                "deref": self.integer(kids[2], p + ".derefAliases", 10),
                "size": self.integer(kids[3], p + ".sizeLimit"),
                "time": self.integer(kids[4], p + ".timeLimit"),
                "typesOnly": self.boolean(kids[5], p + ".typesOnly"),
                "filter": self.filter(kids[6], p + ".filter"),
            }
            self.expect(kids[7], UNIVERSAL, 16, True, p + ".attributes")
            out["attributes"] = [self.lstr(a, p + ".attributes.selector") for a in self.kids(kids[7], p + ".attributes")]
            self.done(kids[8:], p)
            return out
        if kind == "searchResEntry":
            if len(kids) < 2:
                raise DecodeError("missing-component", p)
            name = self.lstr(kids[0], p + ".objectName")
            self.expect(kids[1], UNIVERSAL, 16, True, p + ".attributes")
            attrs = []
            for pa in self.kids(kids[1], p + ".attributes"):
                pp = p + ".attributes.partialAttribute"
                self.expect(pa, UNIVERSAL, 16, True, pp)
                pk = self.kids(pa, pp)
                if len(pk) < 2:
                    raise DecodeError("missing-component", pp)
                aname = self.lstr(pk[0], pp + ".type")
                self.expect(pk[1], UNIVERSAL, 17, True, pp + ".vals")
                vals = [self.ostr(v, pp + ".vals.value") for v in self.kids(pk[1], pp + ".vals")]
                self.done(pk[2:], pp)
                attrs.append((aname, vals))
            self.done(kids[2:], p)
            return {"kind": kind, "name": name, "attributes": attrs}
        if kind == "searchResDone":
            res, rest = self.result(kids, p)
            self.done(rest, p)
            return {"kind": kind, "result": res}
        if kind == "searchResRef":
            return {"kind": kind, "uris": [self.lstr(u, p + ".uri") for u in kids]}
        if kind == "extendedReq":
            if not kids:
                raise DecodeError("missing-component", p)
            name = self.lstr(kids[0], p + ".requestName", CONTEXT, 0)
            value = None
            i = 1
            if i < len(kids) and kids[i].cls == CONTEXT and kids[i].number == 1:
                value = self.ostr(kids[i], p + ".requestValue", CONTEXT, 1)
                i += 1
            self.done(kids[i:], p)
            return {"kind": kind, "name": name, "value": value}
        if kind == "extendedResp":
            res, rest = self.result(kids, p)
            name = value = None
            if rest and rest[0].cls == CONTEXT and rest[0].number == 10:
                name = self.lstr(rest[0], p + ".responseName", CONTEXT, 10)
                rest = rest[1:]
            if rest and rest[0].cls == CONTEXT and rest[0].number == 11:
                value = self.ostr(rest[0], p + ".responseValue", CONTEXT, 11)
                rest = rest[1:]
            self.done(rest, p)
            return {"kind": kind, "result": res, "name": name, "value": value}
        raise DecodeError("wrong-tag", p)

    def message(self, data: bytes) -> t.Dict[str, t.Any]:
        try:
            node, used = ber.read(data, max_depth=420)
        except ber.Incomplete:
            raise DecodeError("incomplete", "LDAPMessage")
        except ber.BerError as e:
            raise DecodeError("malformed", "LDAPMessage", str(e))
        if used != len(data):
            self.dev("trailing-bytes", "LDAPMessage")
        self._check_definite(node, "LDAPMessage")
        self.expect(node, UNIVERSAL, 16, True, "LDAPMessage")
        kids = self.kids(node, "LDAPMessage")
        if len(kids) < 2:
            raise DecodeError("missing-component", "LDAPMessage")
        mid = self.integer(kids[0], "LDAPMessage.messageID")
        m = self.op(kids[1], "LDAPMessage.protocolOp")
        rest = kids[2:]
        controls = []
        if rest and rest[0].cls == CONTEXT and rest[0].number == 0:
            self.expect(rest[0], CONTEXT, 0, True, "LDAPMessage.controls")
            for c in self.kids(rest[0], "LDAPMessage.controls"):
                controls.append(self.control(c, "LDAPMessage.controls.control"))
            if not controls:
                pass  # an empty Controls sequence is valid ASN.1 (SEQUENCE OF)
            rest = rest[1:]
        self.done(rest, "LDAPMessage")
        out = {"kind": m.pop("kind"), "id": mid, "controls": controls}
        out.update(m)
        return out

    def _check_definite(self, node: Tlv, path: str) -> None:
        # ber.read refuses indefinite lengths outright; nodes whose constructed content did not
        # parse are reported when they are interpreted. Nothing more to do here.
        return


def decode(data: bytes) -> t.Tuple[t.Dict[str, t.Any], t.List[Deviation]]:
    """-> (abstract message, deviations from the strict RFC 4511 / X.690 form).

    Raises DecodeError when the bytes cannot be interpreted as an LDAPMessage at all.
    Deviations are forms a *lenient* BER reader would still understand (constructed bit,
    non-minimal integer, boolean octet, encoded default, trailing element/bytes)."""
    d = _Dec()
    m = d.message(data)
    return m, d.devs


# ---------------------------------------------------------------------------------------- notices


def is_notice_of_disconnection(m: t.Dict[str, t.Any]) -> bool:
    return m["kind"] == "extendedResp" and m["id"] == 0 and m["name"] == OID_NOTICE_OF_DISCONNECTION
