"""Collect-then-shrink driver around Hypothesis.

A *part* couples a generator (Hypothesis strategy or an explicit enumeration) with an
oracle ``check(case, ctx) -> [Violation]`` that never raises for a property violation.
The engine runs every part (sharded over processes), buckets violations by their
root-cause key, keeps generating behind each one, then shrinks one representative per
bucket with Hypothesis' own shrinker (re-running the shard that found it with the same
seed, now raising for exactly that bucket).
"""

from __future__ import annotations

import collections
import hashlib
import multiprocessing as mp
import os
import sys
import time
import traceback
import typing as t

from . import jsonx

QUICK = "quick"
THOROUGH = "thorough"


class Violation(t.NamedTuple):
    key: str  # root-cause oriented bucket key
    detail: str


class HarnessError(Exception):
    """Something is wrong with the harness or the environment (exit 2), not the property."""


class Ctx:
    """Per-run bookkeeping handed to every oracle call."""

    def __init__(self, part: str = "") -> None:
        self.part = part
        self.events: t.Counter[str] = collections.Counter()
        self.nt: t.Set[bytes] = set()
        self._case: t.Any = None
        self._marked = False
        self.extra_evaluations = 0  # a part that evaluates a batch of cases per check() call reports the rest here

    def event(self, label: str, n: int = 1) -> None:
        self.events[label] += n

    def nontrivial(self, canon: t.Any = None) -> None:
        """Mark the current case as non-trivial (distinct by ``canon`` or by the case itself)."""
        obj = self._case if canon is None else canon
        h = hashlib.blake2b(repr((self.part, obj)).encode("utf-8", "surrogatepass"), digest_size=8).digest()
        self.nt.add(h)
        self._marked = True


class Part:
    """Base class: one generator + oracle."""

    name = "part"
    #: number of processes the part is sharded over, by tier
    shards = {QUICK: 16, THOROUGH: 16}
    #: examples per shard, by tier
    examples = {QUICK: 200, THOROUGH: 2000}
    #: wall budget per shard in seconds (a budget hit truncates, it never fails)
    budget = {QUICK: 120.0, THOROUGH: 1500.0}
    exhaustive = False
    #: whether a new bucket of this part is shrunk by re-running its shard (expensive when a case is expensive)
    shrinkable = {QUICK: True, THOROUGH: True}
    #: coverage-guided fuzz part (atheris): check(case={"data": bytes}); runs in a subprocess, thorough tier only
    fuzz = False
    fuzz_runs = {QUICK: 0, THOROUGH: 300000}
    fuzz_max_len = 2048

    def seed_corpus(self) -> t.List[bytes]:
        return []

    def strategy(self, tier: str) -> t.Any:  # hypothesis strategy of plain-data cases
        return None

    def enumerate(self, tier: str, shard: int, nshards: int) -> t.Optional[t.Iterable[t.Any]]:
        return None

    def check(self, case: t.Any, ctx: Ctx) -> t.List[Violation]:
        raise NotImplementedError

    def sample(self, case: t.Any) -> t.Any:
        return jsonx.brief(case)


class Property:
    def __init__(
        self,
        id: str,
        rule: str,
        parts: t.List[Part],
        assumptions: t.Optional[t.List[str]] = None,
        selftest: t.Optional[t.Callable[[str, int], None]] = None,
        technique: str = "",
    ) -> None:
        self.id = id
        self.rule = rule
        self.parts = parts
        self.assumptions = assumptions or []
        self.selftest = selftest
        self.technique = technique

    def part(self, name: str) -> Part:
        for p in self.parts:
            if p.name == name:
                return p
        raise HarnessError(f"{self.id}: no part named {name}")


# ---------------------------------------------------------------------------------------


class ShardResult(t.NamedTuple):
    part: str
    shard: int
    seed: int
    evaluations: int
    skipped_by_budget: int
    events: t.Dict[str, int]
    nt: t.Set[bytes]
    buckets: t.Dict[str, t.Tuple[int, t.Any, str]]  # key -> (size, case, detail)
    bucket_counts: t.Dict[str, int]
    samples: t.List[t.Any]
    nt_samples: t.List[t.Any]
    wall: float
    error: t.Optional[str]


def _case_size(case: t.Any) -> int:
    try:
        return len(jsonx.dumps(case))
    except Exception:
        return len(repr(case))


def _library_exception(e: BaseException) -> t.List[Violation]:
    """An exception that escaped a harness call *from inside the library* (innermost frame in sansldap)
    is reported as a violation bucket of its own; anything else is a harness error and re-raised."""
    tb = e.__traceback__
    last = None
    while tb is not None:
        last = tb
        tb = tb.tb_next
    fn = last.tb_frame.f_code.co_filename.replace(os.sep, "/") if last is not None else ""
    if "/sansldap/" not in fn:
        raise e
    from .msgcheck import exc_site

    return [Violation(f"library-exception:{exc_site(e)}", f"unexpected exception escaped a library call made by the harness: {e!r}")]


def shard_seed(seed: int, shard: int) -> int:
    return seed * 1000 + shard


def _settings(n: int, shrink: bool = False) -> t.Any:
    from hypothesis import HealthCheck, Phase, settings

    phases = [Phase.generate, Phase.shrink] if shrink else [Phase.generate]
    return settings(
        max_examples=max(1, n),
        database=None,
        deadline=None,
        derandomize=False,
        report_multiple_bugs=False,
        phases=phases,
        suppress_health_check=list(HealthCheck),
        print_blob=False,
        verbosity=__import__("hypothesis").Verbosity.quiet,
    )


def run_shard(prop_id: str, part_name: str, tier: str, seed: int, shard: int, nshards: int) -> ShardResult:
    """Collect mode: never stops at a violation."""
    t0 = time.monotonic()
    try:
        prop = load_property(prop_id)
        part = prop.part(part_name)
        ctx = Ctx(part_name)
        buckets: t.Dict[str, t.Tuple[int, t.Any, str]] = {}
        counts: t.Counter[str] = collections.Counter()
        samples: t.List[t.Any] = []
        nt_samples: t.List[t.Any] = []
        state = {"n": 0, "skipped": 0}
        budget = part.budget[tier]

        def one(case: t.Any) -> None:
            if time.monotonic() - t0 > budget:
                state["skipped"] += 1
                return
            state["n"] += 1
            ctx._case = case
            ctx._marked = False
            try:
                vs = part.check(case, ctx)
            except Exception as e:
                vs = _library_exception(e)
            if ctx._marked:
                if len(nt_samples) < 3:
                    nt_samples.append(part.sample(case))
            elif len(samples) < 2:
                samples.append(part.sample(case))
            for v in vs:
                counts[v.key] += 1
                size = _case_size(case)
                if v.key not in buckets or size < buckets[v.key][0]:
                    buckets[v.key] = (size, case, v.detail)

        sseed = shard_seed(seed, shard)
        if part.fuzz:
            return _run_fuzz_shard(prop_id, part, tier, seed, shard, t0)
        enum = part.enumerate(tier, shard, nshards)
        if enum is not None:
            for case in enum:
                one(case)
        else:
            import hypothesis
            from hypothesis import given

            strat = part.strategy(tier)
            n = part.examples[tier]

            @hypothesis.seed(sseed)
            @_settings(n)
            @given(strat)
            def runner(case: t.Any) -> None:
                one(case)

            runner()

        return ShardResult(
            part_name,
            shard,
            sseed,
            state["n"] + ctx.extra_evaluations,
            state["skipped"],
            dict(ctx.events),
            ctx.nt,
            buckets,
            dict(counts),
            samples,
            nt_samples,
            time.monotonic() - t0,
            None,
        )
    except BaseException:
        return ShardResult(
            part_name, shard, shard_seed(seed, shard), 0, 0, {}, set(), {}, {}, [], [], time.monotonic() - t0,
            traceback.format_exc(),
        )


def _run_fuzz_shard(prop_id: str, part: Part, tier: str, seed: int, shard: int, t0: float) -> ShardResult:
    """One atheris campaign: empty corpus on even shards, seed corpus on odd shards."""
    import json
    import shutil
    import subprocess
    import tempfile

    sseed = shard_seed(seed, shard)
    work = tempfile.mkdtemp(prefix="vf-fuzz-")
    try:
        corpus = os.path.join(work, "corpus")
        out = os.path.join(work, "out")
        os.makedirs(corpus)
        os.makedirs(out)
        if shard % 2 == 1:
            for i, b in enumerate(part.seed_corpus()):
                with open(os.path.join(corpus, f"seed{i:03d}"), "wb") as fh:
                    fh.write(b)
        runs = part.fuzz_runs[tier]
        cmd = [sys.executable, "-m", "vf.fuzz", prop_id, part.name, out, corpus, f"-runs={runs}", f"-seed={max(1, sseed)}",
               f"-max_len={part.fuzz_max_len}", "-timeout=120", "-rss_limit_mb=4096", "-print_final_stats=0", "-verbosity=0"]
        limit = part.budget[tier]
        try:
            proc = subprocess.run(cmd, capture_output=True, text=True, timeout=limit, cwd=work)
            rc, err = proc.returncode, proc.stderr[-2000:]
        except subprocess.TimeoutExpired:
            rc, err = 0, "budget"
        stats_path = os.path.join(out, "stats.json")
        if not os.path.exists(stats_path):
            return ShardResult(part.name, shard, sseed, 0, 0, {}, set(), {}, {}, [], [], time.monotonic() - t0,
                               f"atheris campaign produced no statistics (rc={rc}): {err}")
        with open(stats_path) as fh:
            stats = json.load(fh)
        buckets: t.Dict[str, t.Tuple[int, t.Any, str]] = {}
        for name in os.listdir(os.path.join(out, "violations")):
            with open(os.path.join(out, "violations", name)) as fh:
                rec = jsonx.loads(fh.read())
            buckets[rec["key"]] = (rec["size"], rec["case"], rec["detail"])
        events = dict(stats["events"])
        events[f"campaign:{'seeded' if shard % 2 == 1 else 'empty'}-corpus"] = 1
        if rc not in (0,) and err != "budget":
            events[f"campaign-exit-{rc}"] = 1
        return ShardResult(part.name, shard, sseed, stats["evaluations"], 0, events, {bytes.fromhex(h) for h in stats["nt"]}, buckets,
                           stats["counts"], stats["samples"], stats["nt_samples"], time.monotonic() - t0, None)
    finally:
        shutil.rmtree(work, ignore_errors=True)


def shrink_bucket(
    prop_id: str, part_name: str, tier: str, sseed: int, key: str, fallback: t.Any, time_cap: float
) -> t.Any:
    """Re-run the shard with the same seed, raising for exactly this bucket; Hypothesis shrinks it.

    After ``time_cap`` seconds only the best case known so far keeps failing, which makes
    the shrinker converge immediately (no wall-clock dependence in the verdict: the case
    returned always fails the oracle with ``key``).
    """
    import hypothesis
    from hypothesis import given

    prop = load_property(prop_id)
    part = prop.part(part_name)
    if part.fuzz or part.enumerate(tier, 0, 1) is not None:
        return fallback, None
    t0 = time.monotonic()
    best: t.Dict[str, t.Any] = {"case": None, "repr": None, "detail": None}

    class _Hit(Exception):
        pass

    def one(case: t.Any) -> None:
        late = time.monotonic() - t0 > time_cap
        if late and best["repr"] is not None and repr(case) != best["repr"]:
            return
        ctx = Ctx(part_name)
        ctx._case = case
        try:
            vs = part.check(case, ctx)
        except Exception as e:
            vs = _library_exception(e)
        hit = [v for v in vs if v.key == key]
        if hit:
            best["case"] = case
            best["repr"] = repr(case)
            best["detail"] = hit[0].detail
            raise _Hit()

    @hypothesis.seed(sseed)
    @_settings(part.examples[tier], shrink=True)
    @given(part.strategy(tier))
    def runner(case: t.Any) -> None:
        one(case)

    try:
        runner()
    except _Hit:
        pass
    except BaseException:
        pass
    if best["case"] is not None:
        return best["case"], best["detail"]
    return fallback, None


# ---------------------------------------------------------------------------------------

_PROP_CACHE: t.Dict[str, Property] = {}


def load_property(prop_id: str) -> Property:
    if prop_id not in _PROP_CACHE:
        import importlib

        mod = importlib.import_module(f"vf.props.{prop_id.lower()}")
        _PROP_CACHE[prop_id] = mod.PROP
    return _PROP_CACHE[prop_id]


def _child(conn: t.Any, args: t.Tuple[t.Any, ...]) -> None:
    try:
        res = run_shard(*args)
    except BaseException:
        res = ShardResult(args[1], args[4], shard_seed(args[3], args[4]), 0, 0, {}, set(), {}, {}, [], [], 0.0, traceback.format_exc())
    try:
        try:
            conn.send(res)
        except BaseException:
            # (e.g. a case nested too deeply to pickle) - report it as a harness error instead of dying silently
            conn.send(ShardResult(args[1], args[4], shard_seed(args[3], args[4]), 0, 0, {}, set(), {}, {}, [], [], 0.0,
                                  "result could not be sent to the parent: " + traceback.format_exc()))
    finally:
        conn.close()


def run_parts(prop: Property, tier: str, seed: int, only_part: t.Optional[str] = None) -> t.List[ShardResult]:
    """Run every shard of every part in its own (killable) process.

    A shard that does not come back within its budget plus a grace period is killed (a case that does
    not terminate, e.g. inside the C regex engine, cannot be interrupted from Python) and reported as
    an error result: that is a harness-level 'inconclusive' (exit 2), never a violation - except for
    C18, which measures cost with its own killable probes."""
    jobs = []
    for part in prop.parts:
        if only_part and part.name != only_part:
            continue
        n = part.shards[tier]
        if part.fuzz and part.fuzz_runs[tier] <= 0:
            continue
        for s_ in range(n):
            jobs.append((prop.id, part.name, tier, seed, s_, n))
    if not jobs:
        raise HarnessError("no parts to run")
    nproc = max(1, min(len(jobs), int(os.environ.get("VERIF_PROCS", "16"))))
    ctxm = mp.get_context("fork")
    pending = list(reversed(jobs))
    running: t.List[t.Tuple[t.Any, t.Any, t.Tuple[t.Any, ...], float, float]] = []
    results: t.Dict[t.Tuple[str, int], ShardResult] = {}
    while pending or running:
        while pending and len(running) < nproc:
            args = pending.pop()
            parent, child = ctxm.Pipe(duplex=False)
            proc = ctxm.Process(target=_child, args=(child, args), daemon=True)
            proc.start()
            child.close()
            budget = prop.part(args[1]).budget[tier]
            running.append((proc, parent, args, time.monotonic(), budget * 1.5 + 60.0))
        still = []
        for proc, conn, args, t0, limit in running:
            key = (args[1], args[4])
            if conn.poll(0):
                try:
                    results[key] = conn.recv()
                except EOFError:
                    results[key] = ShardResult(args[1], args[4], shard_seed(seed, args[4]), 0, 0, {}, set(), {}, {}, [], [], 0.0,
                                               "shard process died without a result")
                conn.close()
                proc.join(5)
                continue
            if not proc.is_alive():
                # finished between poll and here, or died
                if conn.poll(0.2):
                    results[key] = conn.recv()
                else:
                    results[key] = ShardResult(args[1], args[4], shard_seed(seed, args[4]), 0, 0, {}, set(), {}, {}, [], [], 0.0,
                                               f"shard process exited with code {proc.exitcode} without a result")
                conn.close()
                continue
            if time.monotonic() - t0 > limit:
                proc.kill()
                proc.join(5)
                conn.close()
                results[key] = ShardResult(args[1], args[4], shard_seed(seed, args[4]), 0, 0, {}, set(), {}, {}, [], [], limit,
                                           f"shard did not finish within {limit:.0f}s and was killed (a case did not terminate)")
                continue
            still.append((proc, conn, args, t0, limit))
        running = still
        if running:
            time.sleep(0.02)
    return [results[(j[1], j[4])] for j in jobs]


def slug(key: str) -> str:
    s = "".join(ch if ch.isalnum() or ch in "-_." else "_" for ch in key)
    if len(s) > 80:
        s = s[:60] + "_" + hashlib.blake2b(key.encode(), digest_size=6).hexdigest()
    return s or "bucket"


def eprint(*a: t.Any) -> None:
    print(*a, file=sys.stderr, flush=True)
