"""Harness-defined custom control / filter / credential classes (built lazily on the library's base classes)."""

from __future__ import annotations

import dataclasses
import struct
import typing as t

OID_CUSTOM_CONTROL = "1.2.3.4.99"
CUSTOM_FILTER_ID = 77
CUSTOM_AUTH_ID = 9

_CACHE: t.Dict[str, t.Any] = {}


def classes(variant: str = "A") -> t.Dict[str, t.Any]:
    """-> {"control": CustomControl, "filter": CustomFilter, "auth": CustomAuth}

    variant "B" gives a second, different set of classes for the SAME control OID / filter id / auth id
    (two sessions may register different implementations of the same type)."""
    if variant == "B":
        return _classes_b()
    if _CACHE:
        return _CACHE
    import sansldap
    from sansldap import asn1

    @dataclasses.dataclass(frozen=True)
    class CustomControl(sansldap.LDAPControl):
        control_type: str = dataclasses.field(init=False, repr=False, default=OID_CUSTOM_CONTROL)
        value: t.Optional[bytes] = dataclasses.field(init=False, repr=False, default=None)

        size: int

        def get_value(self, options: t.Any) -> t.Optional[bytes]:
            return self.size.to_bytes(4, byteorder="big")

        @classmethod
        def unpack(cls, control_type: str, critical: bool, value: t.Optional[bytes], options: t.Any) -> "CustomControl":
            size = struct.unpack(">I", (value or b""))[0]
            return CustomControl(critical=critical, size=size)

        def to_abstract(self) -> t.Any:
            return ("custom-control", self.critical, self.size)

    @dataclasses.dataclass(frozen=True)
    class CustomFilter(sansldap.LDAPFilter):
        filter_id: int = dataclasses.field(init=False, repr=False, default=CUSTOM_FILTER_ID)

        value: str

        def pack(self, writer: t.Any, options: t.Any) -> None:
            writer.write_octet_string(
                self.value.encode(options.string_encoding),
                tag=asn1.ASN1Tag(asn1.TagClass.CONTEXT_SPECIFIC, self.filter_id, False),
            )

        @classmethod
        def unpack(cls, reader: t.Any, options: t.Any) -> "CustomFilter":
            value = reader.read_octet_string(asn1.ASN1Tag(asn1.TagClass.CONTEXT_SPECIFIC, cls.filter_id, False)).decode("utf-8")
            return CustomFilter(value=value)

        def to_abstract(self) -> t.Any:
            return ("custom-filter", self.value)

    @dataclasses.dataclass(frozen=True)
    class CustomAuth(sansldap.AuthenticationCredential):
        auth_id: int = dataclasses.field(init=False, repr=False, default=CUSTOM_AUTH_ID)

        username: str
        password: str

        def pack(self, writer: t.Any, options: t.Any) -> None:
            writer.write_octet_string(
                f"{self.username}:{self.password}".encode(options.string_encoding),
                tag=asn1.ASN1Tag(asn1.TagClass.CONTEXT_SPECIFIC, self.auth_id, False),
            )

        @classmethod
        def unpack(cls, reader: t.Any, options: t.Any) -> "CustomAuth":
            value = reader.read_octet_string(
                tag=asn1.ASN1Tag(asn1.TagClass.CONTEXT_SPECIFIC, cls.auth_id, False), hint="CustomAuth.value"
            ).decode(options.string_encoding)
            username, _, password = value.partition(":")
            return CustomAuth(username=username, password=password)

        def to_abstract(self) -> t.Any:
            return ("custom-auth", self.username, self.password)

    _CACHE.update(control=CustomControl, filter=CustomFilter, auth=CustomAuth)
    return _CACHE


_CACHE_B: t.Dict[str, t.Any] = {}


def _classes_b() -> t.Dict[str, t.Any]:
    if _CACHE_B:
        return _CACHE_B
    A = classes("A")

    @dataclasses.dataclass(frozen=True)
    class CustomControlB(A["control"]):  # type: ignore[misc,valid-type]
        @classmethod
        def unpack(cls, control_type: str, critical: bool, value: t.Optional[bytes], options: t.Any) -> "CustomControlB":
            size = struct.unpack(">I", (value or b""))[0]
            return CustomControlB(critical=critical, size=size)

        def to_abstract(self) -> t.Any:
            return ("custom-control-B", self.critical, self.size)

    @dataclasses.dataclass(frozen=True)
    class CustomFilterB(A["filter"]):  # type: ignore[misc,valid-type]
        @classmethod
        def unpack(cls, reader: t.Any, options: t.Any) -> "CustomFilterB":
            from sansldap import asn1

            value = reader.read_octet_string(asn1.ASN1Tag(asn1.TagClass.CONTEXT_SPECIFIC, cls.filter_id, False)).decode("utf-8")
            return CustomFilterB(value=value)

        def to_abstract(self) -> t.Any:
            return ("custom-filter-B", self.value)

    @dataclasses.dataclass(frozen=True)
    class CustomAuthB(A["auth"]):  # type: ignore[misc,valid-type]
        @classmethod
        def unpack(cls, reader: t.Any, options: t.Any) -> "CustomAuthB":
            from sansldap import asn1

            value = reader.read_octet_string(
                tag=asn1.ASN1Tag(asn1.TagClass.CONTEXT_SPECIFIC, cls.auth_id, False), hint="CustomAuth.value"
            ).decode(options.string_encoding)
            username, _, password = value.partition(":")
            return CustomAuthB(username=username, password=password)

        def to_abstract(self) -> t.Any:
            return ("custom-auth-B", self.username, self.password)

    _CACHE_B.update(control=CustomControlB, filter=CustomFilterB, auth=CustomAuthB)
    return _CACHE_B


_COLLIDING: t.Dict[t.Tuple[str, t.Any], t.Any] = {}


def colliding(what: str, ident: t.Any) -> t.Any:
    """The custom class of kind ``what`` re-identified with ``ident`` (an OID / filter id / auth id a built-in type uses)."""
    key = (what, ident)
    if key in _COLLIDING:
        return _COLLIDING[key]
    A = classes("A")
    if what == "control":

        @dataclasses.dataclass(frozen=True)
        class CollidingControl(A["control"]):  # type: ignore[misc,valid-type]
            control_type: str = dataclasses.field(init=False, repr=False, default=ident)

        cls: t.Any = CollidingControl
    elif what == "filter":

        @dataclasses.dataclass(frozen=True)
        class CollidingFilter(A["filter"]):  # type: ignore[misc,valid-type]
            filter_id: int = dataclasses.field(init=False, repr=False, default=ident)

        cls = CollidingFilter
    else:

        @dataclasses.dataclass(frozen=True)
        class CollidingAuth(A["auth"]):  # type: ignore[misc,valid-type]
            auth_id: int = dataclasses.field(init=False, repr=False, default=ident)

        cls = CollidingAuth
    _COLLIDING[key] = cls
    return cls
