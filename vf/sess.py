"""Thin, public-API-only access to the library's sessions, plus clone probes.

Nothing here reads private attributes: "which operations are in progress" is answered by
probing ``copy.deepcopy`` clones through the public API.
"""

from __future__ import annotations

import copy
import typing as t

from . import absval, rfc4511

SASL_IN_PROGRESS = 14


def lib() -> t.Any:
    import sansldap

    return sansldap


def errors() -> t.Tuple[t.Any, t.Any]:
    from sansldap import _session

    return _session.LDAPError, _session.ProtocolError


def new(side: str) -> t.Any:
    s = lib()
    return s.LDAPClient() if side == "client" else s.LDAPServer()


_STATE = {"BEFORE_OPEN": "NEW", "BINDING": "BINDING", "OPENED": "OPEN", "CLOSED": "CLOSED"}


def state(sess: t.Any) -> str:
    name = getattr(sess.state, "name", None)
    return _STATE.get(name, f"!{sess.state!r}")


def same_state(a: str, b: str) -> bool:
    """NEW and OPEN are indistinguishable for the properties (C11)."""
    n = {"NEW": "OPEN"}
    return n.get(a, a) == n.get(b, b)


def drain(sess: t.Any) -> bytes:
    return sess.data_to_send()


# ---------------------------------------------------------------------------------------- probes


def server_in_progress(server: t.Any, mid: int) -> bool:
    """Would the server still answer request ``mid``?  (probe on a clone; a SASL continuation is
    permitted in every non-closed state and changes no state)"""
    LDAPError, _ = errors()
    c = copy.deepcopy(server)
    try:
        c.bind_response(mid, result_code=lib().LDAPResultCode(SASL_IN_PROGRESS))
    except LDAPError:
        return False
    return True


def client_in_progress(client: t.Any, mid: int) -> t.Optional[str]:
    """None when the client would reject a response for ``mid``; 'search' when the operation
    survives a non-final response; 'single' otherwise."""
    _, ProtocolError = errors()
    c = copy.deepcopy(client)
    entry = rfc4511.encode({"kind": "searchResEntry", "id": mid, "controls": [], "name": "", "attributes": []})
    try:
        c.receive(entry)
    except ProtocolError:
        return None
    try:
        c.receive(entry)
    except ProtocolError:
        return "single"
    return "search"


def bind_allowed(sess_obj: t.Any, side: str) -> t.Any:
    """Would a bind be possible right now?  client: does bind_simple() succeed on a clone;
    server: is a BindRequest accepted by a clone.  -> True / False / '!<ExceptionType>'"""
    LDAPError, ProtocolError = errors()
    c = copy.deepcopy(sess_obj)
    try:
        if side == "client":
            c.bind_simple()
        else:
            c.receive(rfc4511.encode({"kind": "bindRequest", "id": 2**30 + 11, "controls": [], "version": 3, "name": "", "auth": ("simple", "")}))
    except LDAPError as e:
        if side == "server" and not isinstance(e, ProtocolError):
            return f"!{type(e).__name__}"
        return False
    except BaseException as e:
        return f"!{type(e).__name__}"
    return True


def in_progress_set(sess: t.Any, side: str, candidates: t.Iterable[int]) -> t.Dict[int, t.Any]:
    out: t.Dict[int, t.Any] = {}
    if state(sess) == "CLOSED":
        return out
    for mid in sorted(set(candidates)):
        if side == "server":
            if server_in_progress(sess, mid):
                out[mid] = True
        else:
            k = client_in_progress(sess, mid)
            if k is not None:
                out[mid] = k
    return out


# ---------------------------------------------------------------------------------------- client request scripts

def client_request(client: t.Any, op: t.Any) -> int:
    """op: ("search",) | ("extended",) | ("bind","simple") | ("bind","sasl")  -> message id"""
    k = op[0]
    if k == "search":
        return client.search_request(base_object="dc=x")
    if k == "extended":
        return client.extended_request("1.3.6.1.4.1.4203.1.11.3")
    if k == "bind":
        if op[1] == "simple":
            return client.bind_simple("cn=u", "p")
        return client.bind_sasl("PLAIN", cred=b"c")
    raise ValueError(op)


def server_request_bytes(op: t.Any, mid: int) -> bytes:
    k = op[0]
    if k == "search":
        m = {"kind": "searchRequest", "id": mid, "controls": [], "base": "dc=x", "scope": 2, "deref": 0, "size": 0, "time": 0,
             "typesOnly": False, "filter": ("present", "objectClass"), "attributes": []}
    elif k == "extended":
        m = {"kind": "extendedReq", "id": mid, "controls": [], "name": "1.3.6.1.4.1.4203.1.11.3", "value": None}
    elif k == "bind":
        auth = ("simple", "p") if op[1] == "simple" else ("sasl", "PLAIN", b"c")
        m = {"kind": "bindRequest", "id": mid, "controls": [], "version": 3, "name": "cn=u", "auth": auth}
    else:
        raise ValueError(op)
    return rfc4511.encode(m)


def prepare(side: str, prep: t.Sequence[t.Any]) -> t.Tuple[t.Any, t.List[int]]:
    """A fresh session brought into a prior state by a valid script.

    client: every op is issued through the API; server: every op is delivered as a valid request
    (ids 1..n).  -> (session, ids of the operations now in progress)"""
    s = new(side)
    ids: t.List[int] = []
    LDAPError, _PE = errors()
    for i, op in enumerate(prep):
        op = tuple(op)
        if op[0] == "try":
            # a call that the session may refuse (e.g. a search while binding); refusals are part of the prior history
            try:
                if side == "client":
                    client_request(s, tuple(op[1]))
                else:
                    s.search_result_done(10**6 + i)
            except LDAPError:
                pass
            continue
        if side == "client":
            ids.append(client_request(s, op))
        else:
            mid = i + 1
            s.receive(server_request_bytes(op, mid))
            ids.append(mid)
    s.data_to_send()
    return s, ids
