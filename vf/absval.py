"""Library object <-> abstract value (plain data) projection.

Never relies on the library's ``==``: LDAPResultCode(<unknown>) == SUCCESS is True (the
pseudo-member has integer value 0), so everything is projected to plain data by ``.value``
and exact Python types are checked (a field of the wrong type is projected to a marker
that compares unequal to every well-typed value).
"""

from __future__ import annotations

import typing as t

from . import rfc4511


def _imp():
    import sansldap

    return sansldap


def _typed(v: t.Any, typ: t.Any, allow_none: bool = False) -> t.Any:
    if v is None and allow_none:
        return None
    if typ is int:
        ok = type(v) is int
    elif typ is bool:
        ok = type(v) is bool
    elif typ is str:
        ok = type(v) is str
    elif typ is bytes:
        ok = type(v) is bytes
    else:
        ok = isinstance(v, typ)
    if not ok:
        return ("!type", type(v).__name__, repr(v)[:80])
    return v


def _enumval(v: t.Any) -> t.Any:
    # enum members (incl. the pseudo-member for unknown result codes) -> their integer value
    val = getattr(v, "value", None)
    if type(val) is int:
        return val
    if type(v) is int:
        return ("!type", "int-not-enum", repr(v))
    return ("!type", type(v).__name__, repr(v)[:80])


_FILTER_KIND = {
    "FilterAnd": "and",
    "FilterOr": "or",
    "FilterNot": "not",
    "FilterEquality": "eq",
    "FilterSubstrings": "sub",
    "FilterGreaterOrEqual": "ge",
    "FilterLessOrEqual": "le",
    "FilterPresent": "present",
    "FilterApproxMatch": "approx",
    "FilterExtensibleMatch": "ext",
}


def filter_to_abstract(f: t.Any) -> t.Any:
    # iterative for the and/or/not spine would be nicer; recursion depth is bounded by the callers
    name = type(f).__name__
    kind = _FILTER_KIND.get(name)
    if kind is None:
        custom = getattr(f, "to_abstract", None)
        if custom is not None:
            return custom()
        return ("!filter", name, repr(f)[:80])
    if kind in ("and", "or"):
        if type(f.filters) is not list:
            return ("!type", type(f.filters).__name__)
        return (kind, [filter_to_abstract(x) for x in f.filters])
    if kind == "not":
        return ("not", filter_to_abstract(f.filter))
    if kind in ("eq", "ge", "le", "approx"):
        return (kind, _typed(f.attribute, str), _typed(f.value, bytes))
    if kind == "present":
        return ("present", _typed(f.attribute, str))
    if kind == "sub":
        anys = [_typed(a, bytes) for a in f.any] if type(f.any) is list else ("!type", type(f.any).__name__)
        return ("sub", _typed(f.attribute, str), _typed(f.initial, bytes, True), anys, _typed(f.final, bytes, True))
    return (
        "ext",
        _typed(f.rule, str, True),
        _typed(f.attribute, str, True),
        _typed(f.value, bytes),
        _typed(f.dn_attributes, bool),
    )


def control_to_abstract(c: t.Any, decoded: bool = False) -> t.Any:
    name = type(c).__name__
    if name == "PagedResultControl":
        out = ("paged", _typed(c.critical, bool), _typed(c.size, int), _typed(c.cookie, bytes))
    elif name == "ShowDeletedControl":
        out = ("showDeleted", _typed(c.critical, bool))
    elif name == "ShowDeactivatedLinkControl":
        out = ("showDeactivatedLink", _typed(c.critical, bool))
    elif name == "LDAPControl":
        return ("generic", _typed(c.control_type, str), _typed(c.critical, bool), _typed(c.value, bytes, True))
    else:
        custom = getattr(c, "to_abstract", None)
        if custom is not None:
            return custom()
        return ("!control", name, repr(c)[:80])
    # library-known control: the raw value is the one difference C01 permits; but the fixed
    # control_type must be right, and a decoded one must expose bytes when a value was encoded
    want = {"paged": rfc4511.OID_PAGED, "showDeleted": rfc4511.OID_SHOW_DELETED,
            "showDeactivatedLink": rfc4511.OID_SHOW_DEACTIVATED_LINK}[out[0]]
    if c.control_type != want:
        return ("!control-type", c.control_type)
    if decoded and out[0] == "paged" and type(c.value) is not bytes:
        return ("!paged-value-not-exposed", type(c.value).__name__)
    if c.value is not None and type(c.value) is not bytes:
        return ("!type", type(c.value).__name__)
    return out


def _result(r: t.Any) -> t.Any:
    ref = r.referrals
    if ref is not None:
        ref = [_typed(u, str) for u in ref] if type(ref) is list else ("!type", type(ref).__name__)
    return {
        "code": _enumval(r.result_code),
        "matched": _typed(r.matched_dn, str),
        "diag": _typed(r.diagnostics_message, str),
        "referral": ref,
    }


_MSG_KIND = {
    "BindRequest": "bindRequest",
    "BindResponse": "bindResponse",
    "UnbindRequest": "unbindRequest",
    "SearchRequest": "searchRequest",
    "SearchResultEntry": "searchResEntry",
    "SearchResultDone": "searchResDone",
    "SearchResultReference": "searchResRef",
    "ExtendedRequest": "extendedReq",
    "ExtendedResponse": "extendedResp",
}


def to_abstract(m: t.Any, decoded: bool = False) -> t.Any:
    name = type(m).__name__
    kind = _MSG_KIND.get(name)
    if kind is None:
        return ("!message", name, repr(m)[:80])
    ctrls = m.controls
    out: t.Dict[str, t.Any] = {
        "kind": kind,
        "id": _typed(m.message_id, int),
        "controls": [control_to_abstract(c, decoded) for c in ctrls] if type(ctrls) is list else ("!type", type(ctrls).__name__),
    }
    if m.tag_number != rfc4511.APP[kind]:
        out["!tag_number"] = m.tag_number
    if kind == "bindRequest":
        a = m.authentication
        an = type(a).__name__
        if an == "SimpleCredential":
            auth: t.Any = ("simple", _typed(a.password, str))
        elif an == "SaslCredential":
            auth = ("sasl", _typed(a.mechanism, str), _typed(a.credentials, bytes, True))
        else:
            custom = getattr(a, "to_abstract", None)
            auth = custom() if custom is not None else ("!auth", an, repr(a)[:80])
        out.update(version=_typed(m.version, int), name=_typed(m.name, str), auth=auth)
    elif kind == "bindResponse":
        out.update(result=_result(m.result), sasl=_typed(m.server_sasl_creds, bytes, True))
    elif kind == "searchRequest":
        out.update(
            base=_typed(m.base_object, str),
            scope=_enumval(m.scope),
            deref=_enumval(m.deref_aliases),
            size=_typed(m.size_limit, int),
            time=_typed(m.time_limit, int),
            typesOnly=_typed(m.types_only, bool),
            filter=filter_to_abstract(m.filter),
            attributes=[_typed(a, str) for a in m.attributes] if type(m.attributes) is list else ("!type",),
        )
    elif kind == "searchResEntry":
        attrs = []
        if type(m.attributes) is not list:
            attrs = ("!type", type(m.attributes).__name__)  # type: ignore[assignment]
        else:
            for pa in m.attributes:
                vals = [_typed(v, bytes) for v in pa.values] if type(pa.values) is list else ("!type",)
                attrs.append((_typed(pa.name, str), vals))
        out.update(name=_typed(m.object_name, str), attributes=attrs)
    elif kind == "searchResDone":
        out.update(result=_result(m.result))
    elif kind == "searchResRef":
        out.update(uris=[_typed(u, str) for u in m.uris] if type(m.uris) is list else ("!type",))
    elif kind == "extendedReq":
        out.update(name=_typed(m.name, str), value=_typed(m.value, bytes, True))
    elif kind == "extendedResp":
        out.update(result=_result(m.result), name=_typed(m.name, str, True), value=_typed(m.value, bytes, True))
    return out


# ---------------------------------------------------------------------------------------- abstract -> library


def filter_to_lib(f: t.Any) -> t.Any:
    s = _imp()
    k = f[0]
    if k == "and":
        return s.FilterAnd(filters=[filter_to_lib(x) for x in f[1]])
    if k == "or":
        return s.FilterOr(filters=[filter_to_lib(x) for x in f[1]])
    if k == "not":
        return s.FilterNot(filter=filter_to_lib(f[1]))
    if k == "eq":
        return s.FilterEquality(attribute=f[1], value=f[2])
    if k == "ge":
        return s.FilterGreaterOrEqual(attribute=f[1], value=f[2])
    if k == "le":
        return s.FilterLessOrEqual(attribute=f[1], value=f[2])
    if k == "approx":
        return s.FilterApproxMatch(attribute=f[1], value=f[2])
    if k == "present":
        return s.FilterPresent(attribute=f[1])
    if k == "sub":
        return s.FilterSubstrings(attribute=f[1], initial=f[2], any=list(f[3]), final=f[4])
    if k == "ext":
        return s.FilterExtensibleMatch(rule=f[1], attribute=f[2], value=f[3], dn_attributes=f[4])
    raise ValueError(k)


def control_to_lib(c: t.Any) -> t.Any:
    s = _imp()
    k = c[0]
    if k == "generic":
        return s.LDAPControl(control_type=c[1], critical=c[2], value=c[3])
    if k == "paged":
        return s.PagedResultControl(critical=c[1], size=c[2], cookie=c[3])
    if k == "showDeleted":
        return s.ShowDeletedControl(critical=c[1])
    if k == "showDeactivatedLink":
        return s.ShowDeactivatedLinkControl(critical=c[1])
    raise ValueError(k)


def _result_to_lib(r: t.Any) -> t.Any:
    s = _imp()
    return s.LDAPResult(
        result_code=s.LDAPResultCode(r["code"]),
        matched_dn=r["matched"],
        diagnostics_message=r["diag"],
        referrals=None if r["referral"] is None else list(r["referral"]),
    )


def to_lib(m: t.Any) -> t.Any:
    s = _imp()
    k = m["kind"]
    base = dict(message_id=m["id"], controls=[control_to_lib(c) for c in m["controls"]])
    if k == "bindRequest":
        a = m["auth"]
        auth = s.SimpleCredential(password=a[1]) if a[0] == "simple" else s.SaslCredential(mechanism=a[1], credentials=a[2])
        return s.BindRequest(version=m["version"], name=m["name"], authentication=auth, **base)
    if k == "bindResponse":
        return s.BindResponse(result=_result_to_lib(m["result"]), server_sasl_creds=m["sasl"], **base)
    if k == "unbindRequest":
        return s.UnbindRequest(**base)
    if k == "searchRequest":
        return s.SearchRequest(
            base_object=m["base"],
            scope=s.SearchScope(m["scope"]),
            deref_aliases=s.DereferencingPolicy(m["deref"]),
            size_limit=m["size"],
            time_limit=m["time"],
            types_only=m["typesOnly"],
            filter=filter_to_lib(m["filter"]),
            attributes=list(m["attributes"]),
            **base,
        )
    if k == "searchResEntry":
        return s.SearchResultEntry(
            object_name=m["name"],
            attributes=[s.PartialAttribute(name=n, values=list(v)) for n, v in m["attributes"]],
            **base,
        )
    if k == "searchResDone":
        return s.SearchResultDone(result=_result_to_lib(m["result"]), **base)
    if k == "searchResRef":
        return s.SearchResultReference(uris=list(m["uris"]), **base)
    if k == "extendedReq":
        return s.ExtendedRequest(name=m["name"], value=m["value"], **base)
    if k == "extendedResp":
        return s.ExtendedResponse(result=_result_to_lib(m["result"]), name=m["name"], value=m["value"], **base)
    raise ValueError(k)


def default_options() -> t.Any:
    from sansldap._messages import PackingOptions

    return PackingOptions()


def lib_unpack(data: t.Any, options: t.Any = None) -> t.Tuple[t.Any, bytes]:
    from sansldap._messages import unpack_ldap_message
    from sansldap.asn1 import ASN1Reader

    r = ASN1Reader(data)
    msg = unpack_ldap_message(r, options or default_options())
    return msg, r.get_remaining_data()


def normalise(a: t.Any) -> t.Any:
    """Canonical plain-data form (lists for sequences, tuples kept) - used for equality after JSON round trips."""
    return a


def has_marker(o: t.Any) -> bool:
    """Does a projection contain an ill-typed-field marker (a tuple whose first element is a '!...' word)?
    (structural: a *value* that happens to spell '!type' is not a marker)"""
    stack = [o]
    while stack:
        n = stack.pop()
        if isinstance(n, tuple):
            if n and isinstance(n[0], str) and n[0].startswith("!"):
                return True
            stack.extend(n)
        elif isinstance(n, list):
            stack.extend(n)
        elif isinstance(n, dict):
            if any(isinstance(k, str) and k.startswith("!") for k in n):
                return True
            stack.extend(n.values())
    return False
