"""Known-findings file: read only, never written at run time."""

from __future__ import annotations

import json
import os
import typing as t

ROOT = os.path.dirname(os.path.dirname(os.path.abspath(__file__)))
PATH = os.path.join(ROOT, "known_findings.json")


class Known:
    def __init__(self) -> None:
        self.open: t.Dict[t.Tuple[str, str], str] = {}
        self.fixed: t.List[str] = []
        if os.path.exists(PATH):
            with open(PATH) as fh:
                data = json.load(fh)
            for f in data.get("open", []):
                self.open[(f["property"], f["key"])] = f["what"]
            self.fixed = list(data.get("fixed", []))

    def is_open(self, prop: str, key: str) -> bool:
        return (prop, key) in self.open

    def what(self, prop: str, key: str) -> str:
        return self.open[(prop, key)]

    def keys_for(self, prop: str) -> t.Set[str]:
        return {k for (p, k) in self.open if p == prop}


_KNOWN: t.Optional[Known] = None


def known() -> Known:
    global _KNOWN
    if _KNOWN is None:
        _KNOWN = Known()
    return _KNOWN
