"""Cost meters for C18.

(a) deterministic meter: number of Python line events executed inside sansldap/*.py
(b) CPU meter for work inside the C regex engine: members of an input family are ramped in a
    forked, killable child (signal.alarm with the default action) that reports
    time.process_time() per member through a pipe.
"""

from __future__ import annotations

import os
import re
import signal
import sys
import time
import typing as t

# ---------------------------------------------------------------------------------------- alphabet harvesting

_SEEN_PATTERNS: t.Set[str] = set()
_orig_compile = getattr(re, "_compile", None)


def _install_harvester() -> None:
    if _orig_compile is None or getattr(re._compile, "_vf_wrapped", False):  # type: ignore[attr-defined]
        return

    def wrapped(pattern: t.Any, flags: t.Any) -> t.Any:
        try:
            if isinstance(pattern, str) and len(pattern) < 4000:
                _SEEN_PATTERNS.add(pattern)
            elif isinstance(pattern, bytes) and len(pattern) < 4000:
                _SEEN_PATTERNS.add(pattern.decode("latin-1"))
        except Exception:
            pass
        return _orig_compile(pattern, flags)

    wrapped._vf_wrapped = True  # type: ignore[attr-defined]
    re._compile = wrapped  # type: ignore[attr-defined]


_install_harvester()


def harvested_alphabet() -> t.List[str]:
    """Characters the parsers' own regular expressions mention (module-level compiled patterns of
    sansldap.schema / sansldap._filter plus patterns compiled while parsing)."""
    import sansldap._filter as f
    import sansldap.schema as s

    pats = set(_SEEN_PATTERNS)
    for mod in (f, s):
        for v in vars(mod).values():
            if isinstance(v, re.Pattern):
                p = v.pattern
                pats.add(p if isinstance(p, str) else p.decode("latin-1"))
    chars: t.Set[str] = set()
    for p in pats:
        for ch in p:
            if ch.isprintable() and ch not in "\n":
                chars.add(ch)
    chars |= set("'\\ .$(){}0123456789aAxX-_;:=*")
    return sorted(chars)


# ---------------------------------------------------------------------------------------- entry points


def entry(name: str) -> t.Callable[[t.Any], None]:
    import sansldap
    from sansldap import schema

    if name == "oc":
        return schema.ObjectClassDescription.from_string
    if name == "at":
        return schema.AttributeTypeDescription.from_string
    if name == "dcr":
        return schema.DITContentRuleDescription.from_string
    if name == "filter":
        return sansldap.LDAPFilter.from_string
    if name == "recv-server":
        return lambda data: sansldap.LDAPServer().receive(data)
    if name == "recv-client":
        return lambda data: sansldap.LDAPClient().receive(data)
    if name == "recv-server-bytewise":
        def bytewise(data: bytes) -> None:
            s = sansldap.LDAPServer()
            for i in range(len(data)):
                s.receive(data[i : i + 1])
        return bytewise
    raise ValueError(name)


def call_quiet(fn: t.Callable[[t.Any], t.Any], arg: t.Any) -> None:
    try:
        fn(arg)
    except Exception:
        pass
    except RecursionError:
        pass


# ---------------------------------------------------------------------------------------- (a) line-event meter


def count_lines(fn: t.Callable[[t.Any], t.Any], arg: t.Any) -> int:
    """Number of 'line' trace events inside sansldap source files while fn(arg) runs."""
    n = 0
    marker = os.sep + "sansldap" + os.sep

    def local(frame: t.Any, event: str, a: t.Any) -> t.Any:
        nonlocal n
        if event == "line":
            n += 1
        return local

    def tracer(frame: t.Any, event: str, a: t.Any) -> t.Any:
        if marker in frame.f_code.co_filename:
            return local
        return None

    old = sys.gettrace()
    sys.settrace(tracer)
    try:
        call_quiet(fn, arg)
    finally:
        sys.settrace(old)
    return n


# ---------------------------------------------------------------------------------------- (b) CPU ramp in a killable child


class Ramp(t.NamedTuple):
    points: t.List[t.Tuple[int, float]]  # (n, cpu seconds)
    raised: t.List[bool]  # per point: did the member fail to parse (raise)?
    killed_at: t.Optional[int]  # n of the member the child was working on when the alarm killed it
    stopped: str  # "threshold" | "size" | "killed" | "error"


def ramp(
    entry_name: str,
    member: t.Callable[[int], t.Any],
    start: int,
    step: int,
    max_len: int,
    stop_s: float,
    alarm_s: int,
    max_points: int = 400,
) -> Ramp:
    """Evaluate member(start), member(start+step), ... in a forked child until one member costs more than
    ``stop_s`` CPU seconds, the member would exceed ``max_len``, or the child is killed by its alarm."""
    r, w = os.pipe()
    pid = os.fork()
    if pid == 0:
        # ---- child
        try:
            os.close(r)
            import gc

            gc.disable()
            # CPU-time alarm with the default action: the child dies even inside an uninterruptible regex
            # match, and machine load cannot trigger it
            signal.signal(signal.SIGVTALRM, signal.SIG_DFL)
            signal.signal(signal.SIGALRM, signal.SIG_DFL)
            signal.setitimer(signal.ITIMER_VIRTUAL, float(alarm_s))
            signal.alarm(alarm_s * 20 + 60)  # wall-clock backstop only
            fn = entry(entry_name)
            n = start
            for _ in range(max_points):
                m = member(n)
                if len(m) > max_len:
                    os.write(w, b"S\n")
                    break
                os.write(w, f"B {n}\n".encode())
                t0 = time.process_time()
                ok = 1
                try:
                    fn(m)
                except Exception:
                    ok = 0
                except RecursionError:
                    ok = 0
                dt = time.process_time() - t0
                os.write(w, f"P {n} {dt:.6f} {ok}\n".encode())
                if dt > stop_s:
                    os.write(w, b"T\n")
                    break
                n += step
            else:
                os.write(w, b"S\n")
        except BaseException:
            try:
                os.write(w, b"E\n")
            except Exception:
                pass
        finally:
            os._exit(0)
    # ---- parent
    os.close(w)
    buf = b""
    while True:
        chunk = os.read(r, 65536)
        if not chunk:
            break
        buf += chunk
    os.close(r)
    _, status = os.waitpid(pid, 0)
    points: t.List[t.Tuple[int, float]] = []
    raised: t.List[bool] = []
    begun: t.Optional[int] = None
    stopped = "killed"
    for line in buf.decode().splitlines():
        if line.startswith("P "):
            _p, n_, dt_, ok_ = line.split()
            points.append((int(n_), float(dt_)))
            raised.append(ok_ == "0")
            begun = None
        elif line.startswith("B "):
            begun = int(line.split()[1])
        elif line == "T":
            stopped = "threshold"
        elif line == "S":
            stopped = "size"
        elif line == "E":
            stopped = "error"
    killed_at = None
    if os.WIFSIGNALED(status):
        stopped = "killed"
        killed_at = begun
    elif stopped == "killed":
        stopped = "error"
    return Ramp(points, raised, killed_at, stopped)


def doubling_tail(points: t.List[t.Tuple[int, float]], floor_s: float) -> bool:
    """CPU time at least doubled on each of the last three increments and the last point is above ``floor_s``."""
    if len(points) < 4:
        return False
    last = points[-4:]
    if last[-1][1] <= floor_s:
        return False
    for (n0, t0), (n1, t1) in zip(last, last[1:]):
        if t0 <= 0 or t1 < 2.0 * t0:
            return False
    return True


def count_lines_child(entry_name: str, members: t.Sequence[t.Any], cpu_limit: int = 20) -> t.List[t.Optional[int]]:
    """Line-event counts for each member, measured in a forked child with a CPU-time kill; None for the members
    that were not finished when the child was killed."""
    r, w = os.pipe()
    pid = os.fork()
    if pid == 0:
        try:
            os.close(r)
            signal.signal(signal.SIGVTALRM, signal.SIG_DFL)
            signal.signal(signal.SIGALRM, signal.SIG_DFL)
            signal.setitimer(signal.ITIMER_VIRTUAL, float(cpu_limit))
            signal.alarm(cpu_limit * 20 + 60)
            fn = entry(entry_name)
            for m in members:
                os.write(w, f"{count_lines(fn, m)}\n".encode())
        except BaseException:
            pass
        finally:
            os._exit(0)
    os.close(w)
    buf = b""
    while True:
        chunk = os.read(r, 65536)
        if not chunk:
            break
        buf += chunk
    os.close(r)
    _, status = os.waitpid(pid, 0)
    vals = [int(x) for x in buf.decode().split()]
    if os.WIFSIGNALED(status) or len(vals) != len(members):
        # killed: the counts measured so far are still exact
        return vals + [None] * (len(members) - len(vals))  # type: ignore[list-item]
    return vals


def ramp_many(
    entry_name: str,
    members: t.Sequence[t.Callable[[int], t.Any]],
    start: int,
    step: int,
    max_len: int,
    stop_s: float,
    alarm_s: int,
    max_points: int = 400,
    max_kills: int = 2,
) -> t.List[Ramp]:
    """Like ``ramp`` for a batch of families, sharing one forked child as long as it survives (a fork per family is
    the dominant cost of a sweep). The CPU alarm is re-armed for every family; when the child is killed, the family
    it was working on is reported as killed and the remaining families continue in a fresh child."""
    results: t.List[t.Optional[Ramp]] = [None] * len(members)
    nxt = 0
    kills = 0
    while nxt < len(members):
        if kills >= max_kills:
            # enough evidence that something blows up here: the rest of the batch is not ramped (reported as skipped)
            for i in range(nxt, len(members)):
                results[i] = Ramp([], [], None, "skipped")
            break
        r, w = os.pipe()
        pid = os.fork()
        if pid == 0:
            try:
                os.close(r)
                import gc

                gc.disable()
                signal.signal(signal.SIGVTALRM, signal.SIG_DFL)
                signal.signal(signal.SIGALRM, signal.SIG_DFL)
                fn = entry(entry_name)
                out = []
                for idx in range(nxt, len(members)):
                    signal.setitimer(signal.ITIMER_VIRTUAL, float(alarm_s))
                    signal.alarm(alarm_s * 20 + 60)
                    out.append(f"F {idx}\n")
                    os.write(w, "".join(out).encode())
                    out = []
                    member = members[idx]
                    n = start
                    end = "S"
                    for _ in range(max_points):
                        m = member(n)
                        if len(m) > max_len:
                            break
                        os.write(w, f"B {n}\n".encode())
                        t0 = time.process_time()
                        ok = 1
                        try:
                            fn(m)
                        except Exception:
                            ok = 0
                        except RecursionError:
                            ok = 0
                        dt = time.process_time() - t0
                        out.append(f"P {n} {dt:.6f} {ok}\n")
                        if dt > stop_s:
                            end = "T"
                            break
                        n += step
                    out.append(end + "\n")
                os.write(w, "".join(out).encode())
            except BaseException:
                try:
                    os.write(w, b"E\n")
                except Exception:
                    pass
            finally:
                os._exit(0)
        os.close(w)
        buf = b""
        while True:
            chunk = os.read(r, 1 << 16)
            if not chunk:
                break
            buf += chunk
        os.close(r)
        _, status = os.waitpid(pid, 0)
        cur: t.Optional[int] = None
        points: t.List[t.Tuple[int, float]] = []
        raised: t.List[bool] = []
        begun: t.Optional[int] = None
        finished_all = False

        def close(stopped: str, killed_at: t.Optional[int] = None) -> None:
            if cur is not None:
                results[cur] = Ramp(list(points), list(raised), killed_at, stopped)

        for line in buf.decode().splitlines():
            if line.startswith("F "):
                cur = int(line.split()[1])
                points, raised, begun = [], [], None
            elif line.startswith("B "):
                begun = int(line.split()[1])
            elif line.startswith("P "):
                _p, n_, dt_, ok_ = line.split()
                points.append((int(n_), float(dt_)))
                raised.append(ok_ == "0")
                begun = None
            elif line in ("S", "T"):
                close("size" if line == "S" else "threshold")
                if cur is not None:
                    nxt = cur + 1
                cur = None
            elif line == "E":
                close("error")
                if cur is not None:
                    nxt = cur + 1
                cur = None
        if cur is not None:
            # the child died while working on family ``cur``
            close("killed" if os.WIFSIGNALED(status) else "error", begun)
            kills += 1
            nxt = cur + 1
        elif nxt < len(members) and not buf:
            # nothing at all came back: avoid looping forever
            results[nxt] = Ramp([], [], None, "error")
            nxt += 1
    return [r_ if r_ is not None else Ramp([], [], None, "error") for r_ in results]
