"""Single-node TLV mutations of valid encodings (plain-data driven, so cases replay and shrink).

A mutation is described by plain data:
    {"node": int, "op": str, "arg": int, "repair": bool, "rnd": bytes}
and applied with ``apply(data, mutation)``.  ``node`` selects a TLV node of the parsed
encoding (modulo the number of nodes, pre-order); ``repair`` says whether the length
octets of all ancestors are recomputed (the envelope then stays complete) or left alone.
"""

from __future__ import annotations

import typing as t

from . import ber

OPS = [
    "len+1", "len-1", "len+k", "len-k", "len0", "len-huge", "len-pad",
    "class", "number", "constructed", "universal-high", "hightag-form",
    "truncate", "empty", "random", "delete", "duplicate", "swap", "wrap", "indefinite", "append-junk", "bad-utf8", "bad-utf8-same",
]

_BAD_UTF8 = [b"\xff", b"\xc3", b"\xed\xa0\x80", b"\xf8\x88\x80\x80\x80", b"\xc0\xaf", b"a\x80b", b"\xe2\x82", b"\xf4\x90\x80\x80"]


class Node(t.NamedTuple):
    start: int
    hdr: int
    length: int
    depth: int
    parents: t.Tuple[int, ...]  # indexes of ancestor nodes, outermost first
    cls: int
    constructed: bool
    number: int


def index_nodes(data: bytes, max_nodes: int = 4000) -> t.List[Node]:
    """Pre-order list of the TLV nodes of ``data`` (descends into constructed nodes whose content parses)."""
    out: t.List[Node] = []

    def walk(pos: int, end: int, depth: int, parents: t.Tuple[int, ...]) -> bool:
        while pos < end:
            if len(out) >= max_nodes:
                return False
            try:
                cls, cons, num, hl, length, _to, _lo = ber.read_header(data[:end], pos)
            except ber.BerError:
                return False
            if length is None or pos + hl + length > end:
                return False
            idx = len(out)
            out.append(Node(pos, hl, length, depth, parents, cls, cons, num))
            if cons and depth < 300:
                mark = len(out)
                if not walk(pos + hl, pos + hl + length, depth + 1, parents + (idx,)):
                    del out[mark:]  # content is not a TLV sequence: treat as opaque
            pos += hl + length
        return True

    walk(0, len(data), 0, ())
    return out


def _hdr(cls: int, cons: bool, num: int, length: int, form: t.Any = None, pad_tag: int = 0) -> bytes:
    return ber.ident_octets(cls, cons, num, pad_tag) + ber.length_octets(length, form)


def _replacement(data: bytes, nodes: t.List[Node], i: int, op: str, arg: int, rnd: bytes) -> t.Tuple[int, int, bytes]:
    """-> (start, end, new bytes) for the byte span that is replaced."""
    n = nodes[i]
    s, e = n.start, n.start + n.hdr + n.length
    content = data[s + n.hdr : e]
    ident = data[s : s + n.hdr - _len_octets_len(data, s, n.hdr)]
    k = 2 + arg % 200

    def with_len(L: int) -> bytes:
        return ident + ber.length_octets(max(0, L)) + content

    if op == "len+1":
        return s, e, with_len(n.length + 1)
    if op == "len-1":
        return s, e, with_len(n.length - 1)
    if op == "len+k":
        return s, e, with_len(n.length + k)
    if op == "len-k":
        return s, e, with_len(n.length - k)
    if op == "len0":
        return s, e, with_len(0)
    if op == "len-huge":
        return s, e, ident + bytes([0x80 | (1 + arg % 8)]) + b"\xff" * (1 + arg % 8) + content
    if op == "len-pad":
        return s, e, ident + ber.length_octets(n.length, ("long", 1 + arg % 8)) + content
    if op == "class":
        return s, e, _hdr((n.cls + 1 + arg % 3) % 4, n.constructed, n.number, n.length) + content
    if op == "number":
        return s, e, _hdr(n.cls, n.constructed, (n.number + 1 + arg % 40) % 64, n.length) + content
    if op == "constructed":
        return s, e, _hdr(n.cls, not n.constructed, n.number, n.length) + content
    if op == "universal-high":
        return s, e, _hdr(ber.UNIVERSAL, n.constructed, 37 + arg % 500, n.length) + content
    if op == "hightag-form":
        return s, e, _hdr(n.cls, n.constructed, n.number, n.length, None, 1 + arg % 3) + content
    if op == "truncate":
        keep = arg % (n.length + 1)
        return s, e, ident + ber.length_octets(keep) + content[:keep]
    if op == "empty":
        return s, e, ident + b"\x00"
    if op == "random":
        return s, e, ident + ber.length_octets(len(rnd)) + rnd
    if op == "delete":
        return s, e, b""
    if op == "duplicate":
        return s, e, data[s:e] * (2 + arg % 3)
    if op == "swap":
        # swap with the next sibling when there is one
        for j in range(i + 1, len(nodes)):
            if nodes[j].parents == n.parents and nodes[j].start == e:
                e2 = nodes[j].start + nodes[j].hdr + nodes[j].length
                return s, e2, data[e:e2] + data[s:e]
        return s, e, data[s:e]
    if op == "wrap":
        layers = 1 + arg % 12
        inner = data[s:e]
        for _ in range(layers):
            inner = _hdr(n.cls if n.constructed else ber.UNIVERSAL, True, n.number if n.constructed else 16, len(inner)) + inner
        return s, e, inner
    if op == "indefinite":
        return s, e, ident + b"\x80" + content + b"\x00\x00"
    if op == "append-junk":
        return e, e, rnd
    if op == "bad-utf8":
        # content that is not valid UTF-8 (only meaningful at string nodes; elsewhere it is just other content)
        bad = _BAD_UTF8[arg % len(_BAD_UTF8)]
        body = content[: arg % (len(content) + 1)] + bad + content[arg % (len(content) + 1):] if not n.constructed else bad
        return s, e, ident + ber.length_octets(len(body)) + body
    raise ValueError(op)


def _len_octets_len(data: bytes, start: int, hdr: int) -> int:
    # number of length octets of the header starting at ``start``
    _c, _k, _n, hl, _l, tag_oct, len_oct = ber.read_header(data, start)
    return len(len_oct)


def apply(data: bytes, mut: t.Dict[str, t.Any]) -> t.Tuple[bytes, t.Dict[str, t.Any]]:
    """-> (mutated bytes, info).  info: node depth, op, whether the outer envelope length was kept."""
    nodes = index_nodes(data)
    if not nodes:
        return data, {"op": "none", "depth": 0}
    i = mut["node"] % len(nodes)
    op = mut["op"]
    if op == "bad-utf8-same":
        # consistent replacement: every primitive node whose content equals the chosen node's content gets the same
        # invalid UTF-8 content (a repeated control type / attribute name stays repeated); lengths are repaired
        n0 = nodes[i]
        content = data[n0.start + n0.hdr : n0.start + n0.hdr + n0.length]
        same = [j for j, n in enumerate(nodes) if not n.constructed and data[n.start + n.hdr : n.start + n.hdr + n.length] == content]
        out = data
        for j in reversed(same):
            out, _ = apply(out, {"node": j, "op": "bad-utf8", "arg": mut.get("arg", 0), "repair": True, "rnd": b""})
        return out, {"op": op, "depth": n0.depth, "repair": True, "node_tag": (n0.cls, n0.number)}
    s, e, new = _replacement(data, nodes, i, op, mut.get("arg", 0), mut.get("rnd", b""))
    delta = len(new) - (e - s)
    out = bytearray(data[:s] + new + data[e:])
    info = {"op": op, "depth": nodes[i].depth, "repair": bool(mut.get("repair")), "node_tag": (nodes[i].cls, nodes[i].number)}
    if mut.get("repair") and delta != 0 and nodes[i].parents:
        # recompute the length octets of every ancestor, innermost first
        for pi in reversed(nodes[i].parents):
            p = nodes[pi]
            old_hdr = bytes(data[p.start : p.start + p.hdr])
            lo = _len_octets_len(data, p.start, p.hdr)
            ident = old_hdr[: p.hdr - lo]
            new_len = p.length + delta
            if new_len < 0:
                break
            new_hdr = ident + ber.length_octets(new_len)
            # ancestors' headers lie before the mutated span and before deeper ancestors' headers
            out[p.start : p.start + p.hdr] = new_hdr
            delta += len(new_hdr) - len(old_hdr)
            # note: positions of outer ancestors are unaffected because we edit right-to-left
    return bytes(out), info


def deep_not_search_request(depth: int, mid: int = 1, kind: int = 2) -> bytes:
    """SearchRequest whose filter is ``depth`` nested not/and/or nodes around a present filter (built iteratively)."""
    inner = b"\x87\x01a"
    tag = {0: 0xA0, 1: 0xA1, 2: 0xA2}[kind]
    for _ in range(depth):
        inner = bytes([tag]) + ber.length_octets(len(inner)) + inner
    body = (
        b"\x04\x00" + b"\x0a\x01\x00" + b"\x0a\x01\x00" + b"\x02\x01\x00" + b"\x02\x01\x00" + b"\x01\x01\x00" + inner + b"\x30\x00"
    )
    op = b"\x63" + ber.length_octets(len(body)) + body
    msg = ber.write(ber.integer(mid)) + op
    return b"\x30" + ber.length_octets(len(msg)) + msg


def deep_sequence(depth: int, tag: int = 0x30) -> bytes:
    inner = b""
    for _ in range(depth):
        inner = bytes([tag]) + ber.length_octets(len(inner)) + inner
    return inner
