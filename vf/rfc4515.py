"""Reference RFC 4515 filter-string parser and sentence generator (independent of sansldap._filter).

Trees use the abstract filter form of rfc4511.py:
    ("and",[F]) ("or",[F]) ("not",F) ("eq",a,v) ("sub",a,initial|None,[any],final|None)
    ("ge",a,v) ("le",a,v) ("present",a) ("approx",a,v) ("ext",rule|None,attr|None,value,dn)
"""

from __future__ import annotations

import typing as t

from hypothesis import strategies as st

from . import gens

ALPHA = b"abcdefghijklmnopqrstuvwxyzABCDEFGHIJKLMNOPQRSTUVWXYZ"
DIGIT = b"0123456789"
KEYCHAR = ALPHA + DIGIT + b"-"
HEX = b"0123456789abcdefABCDEF"


class RefSyntaxError(Exception):
    def __init__(self, msg: str, pos: int) -> None:
        super().__init__(f"{msg} at byte {pos}")
        self.pos = pos


# ---------------------------------------------------------------------------------------- attribute descriptions


def valid_oid(b: bytes, allow_single_arc: bool = False) -> bool:
    """descr / numericoid (RFC 4512 1.4)"""
    if not b:
        return False
    if b[0] in ALPHA:
        return all(c in KEYCHAR for c in b)
    arcs = b.split(b".")
    if len(arcs) < 2 and not allow_single_arc:
        return False
    for a in arcs:
        if not a or any(c not in DIGIT for c in a):
            return False
        if len(a) > 1 and a[0] == ord("0"):
            return False
    return True


def valid_attribute_description(s: t.Union[str, bytes], allow_single_arc: bool = False) -> bool:
    try:
        b = s.encode("ascii") if isinstance(s, str) else s
    except UnicodeEncodeError:
        return False
    parts = b.split(b";")
    if not valid_oid(parts[0], allow_single_arc):
        return False
    for o in parts[1:]:
        if not o or any(c not in KEYCHAR for c in o):
            return False
    return True


# ---------------------------------------------------------------------------------------- parser


class _P:
    def __init__(self, data: bytes, strict: bool, spaces: bool) -> None:
        self.d = data
        self.i = 0
        self.strict = strict
        self.spaces = spaces
        self.depth = 0

    def peek(self) -> int:
        return self.d[self.i] if self.i < len(self.d) else -1

    def skip_spaces(self) -> None:
        if self.spaces:
            while self.peek() == 0x20:
                self.i += 1

    def expect(self, ch: bytes) -> None:
        if self.peek() != ch[0]:
            raise RefSyntaxError(f"expected {ch!r}", self.i)
        self.i += 1

    def filter(self) -> t.Any:
        # iterative over the and/or/not spine so that depth is not limited by the interpreter stack
        stack: t.List[t.Any] = []  # frames: [kind, children]
        result: t.Any = None
        while True:
            self.skip_spaces()
            self.expect(b"(")
            self.skip_spaces()
            c = self.peek()
            if c in (0x26, 0x7C, 0x21):  # & | !
                self.i += 1
                stack.append([{0x26: "and", 0x7C: "or", 0x21: "not"}[c], []])
                continue
            result = self.item()
            self.expect(b")")
            # unwind
            while stack:
                frame = stack[-1]
                frame[1].append(result)
                self.skip_spaces()
                if frame[0] == "not":
                    self.expect(b")")
                    stack.pop()
                    result = ("not", frame[1][0])
                    continue
                if self.peek() == 0x28:  # another filter in the list
                    break
                self.expect(b")")
                stack.pop()
                result = (frame[0], frame[1])
            else:
                return result
            # loop to parse the next filter of the list on top of the stack

    def attr(self, stop: t.Set[int]) -> bytes:
        j = self.i
        while j < len(self.d) and self.d[j] not in stop:
            j += 1
        a = self.d[self.i : j]
        self.i = j
        return a

    def value(self) -> t.Tuple[bytes, t.List[int]]:
        """valueencoding up to the closing paren -> (octets, positions in the output where a raw '*' stood)"""
        out = bytearray()
        stars: t.List[int] = []
        while True:
            c = self.peek()
            if c == -1:
                raise RefSyntaxError("unterminated value", self.i)
            if c == 0x29:
                break
            if c == 0x5C:
                h = self.d[self.i + 1 : self.i + 3]
                if len(h) != 2 or h[0] not in HEX or h[1] not in HEX:
                    raise RefSyntaxError("bad escape", self.i)
                out.append(int(h.decode(), 16))
                self.i += 3
                continue
            if c == 0x2A:
                stars.append(len(out))
                self.i += 1
                continue
            if c == 0x28 or c == 0x00:
                raise RefSyntaxError("unescaped special in value", self.i)
            if c >= 0x80:
                n = _utf8_len(self.d, self.i)
                if n == 0:
                    raise RefSyntaxError("invalid UTF-8 in value", self.i)
                out.extend(self.d[self.i : self.i + n])
                self.i += n
                continue
            out.append(c)
            self.i += 1
        return bytes(out), stars

    def item(self) -> t.Any:
        start = self.i
        head = self.attr({0x3D, 0x29, 0x28})  # up to '='
        if self.peek() != 0x3D:
            raise RefSyntaxError("item without '='", self.i)
        self.i += 1
        ftype = "eq"
        if head[-1:] in (b"~", b">", b"<", b":"):
            ftype = {b"~": "approx", b">": "ge", b"<": "le", b":": "ext"}[head[-1:]]
            head = head[:-1]
        value, stars = self.value()
        if ftype == "ext":
            parts = head.split(b":")
            attr = parts[0] or None
            rest = parts[1:]
            dn = False
            rule = None
            if rest and rest[0].lower() == b"dn":  # ABNF literals are case-insensitive
                dn = True
                rest = rest[1:]
            if rest:
                rule = rest[0]
                rest = rest[1:]
            if rest:
                raise RefSyntaxError("extra component in extensible match", start)
            if attr is None and rule is None:
                raise RefSyntaxError("extensible match without attribute and rule", start)
            if attr is not None and not valid_attribute_description(attr):
                raise RefSyntaxError("invalid attribute description", start)
            if rule is not None and not valid_oid(rule):
                raise RefSyntaxError("invalid matching rule", start)
            if stars:
                raise RefSyntaxError("unescaped '*' in assertion value", start)
            return ("ext", rule.decode() if rule is not None else None, attr.decode() if attr is not None else None, value, dn)
        if not valid_attribute_description(head):
            raise RefSyntaxError("invalid attribute description", start)
        a = head.decode()
        if ftype != "eq":
            if stars:
                raise RefSyntaxError("unescaped '*' in assertion value", start)
            return (ftype, a, value)
        if not stars:
            return ("eq", a, value)
        if stars == [0] and value == b"":
            return ("present", a)
        # substring: split the output at the recorded star positions
        pieces = []
        prev = 0
        for s in stars:
            pieces.append(value[prev:s])
            prev = s
        pieces.append(value[prev:])
        initial = pieces[0] or None
        final = pieces[-1] or None
        anys = pieces[1:-1]
        if any(len(x) == 0 for x in anys):
            raise RefSyntaxError("empty 'any' component", start)
        return ("sub", a, initial, anys, final)


def _utf8_len(d: bytes, i: int) -> int:
    c = d[i]
    if 0xC2 <= c <= 0xDF:
        n = 2
    elif 0xE0 <= c <= 0xEF:
        n = 3
    elif 0xF0 <= c <= 0xF4:
        n = 4
    else:
        return 0
    chunk = d[i : i + n]
    try:
        chunk.decode("utf-8")
    except UnicodeDecodeError:
        return 0
    return n


def parse(text: str, strict: bool = True, spaces: bool = False) -> t.Any:
    """Parse an RFC 4515 filter string. spaces=True additionally tolerates the spaces the library documents
    (around the filter, after '(' , after the operator, between and after sub-filters)."""
    data = text.encode("utf-8", "surrogateescape")
    p = _P(data, strict, spaces)
    if spaces:
        # outer whitespace is stripped by the library with str.strip()
        stripped = text.strip()
        data = stripped.encode("utf-8", "surrogateescape")
        p = _P(data, strict, spaces)
    tree = p.filter()
    p.skip_spaces()
    if p.i != len(p.d):
        raise RefSyntaxError("trailing data", p.i)
    return tree


# ---------------------------------------------------------------------------------------- sentence generator

_NORMAL_ASCII = [c for c in range(0x01, 0x80) if c not in (0x28, 0x29, 0x2A, 0x5C)]
_INTERESTING_NORMAL = [ord(c) for c in " =:~<>!&|;.-_,'\"#+/@\t\n\r\x7f\x01"] + list(b"abcXYZ0189")


@st.composite
def value_atoms(draw: t.Any, min_size: int = 0, max_size: int = 8) -> t.Tuple[str, bytes, t.Dict[str, int]]:
    """-> (text form, octets, stats)"""
    n = draw(st.integers(min_size, max_size))
    text = []
    out = bytearray()
    stats = {"esc": 0, "lit": 0, "utf8": 0, "lit-special-adjacent": 0}
    for _ in range(n):
        k = draw(st.sampled_from(["lit", "lit", "lit", "esc", "esc", "esc-special", "utf8"]))
        if k == "lit":
            c = draw(st.one_of(st.sampled_from(_INTERESTING_NORMAL), st.sampled_from(_NORMAL_ASCII)))
            text.append(chr(c))
            out.append(c)
            stats["lit"] += 1
            if c in b" =:~<>!&|":
                stats["lit-special-adjacent"] += 1
        elif k == "utf8":
            ch = draw(st.one_of(st.sampled_from([0x80, 0xE9, 0x7FF, 0x800, 0x20AC, 0xFFFD, 0x10000, 0x1F600, 0x10FFFF]).map(chr),
                                st.characters(min_codepoint=0x80, exclude_categories=["Cs"]),
                                st.sampled_from(gens.NORMALISATION_SENSITIVE),
                                st.sampled_from([c for c in gens.BOUNDARY_CHARS if ord(c) >= 0x80])))
            text.append(ch)
            out.extend(ch.encode("utf-8"))
            stats["utf8"] += 1
        else:
            if k == "esc-special":
                b = draw(st.sampled_from([0x00, 0x28, 0x29, 0x2A, 0x5C, 0x80, 0xFF, 0xC3, 0x20]))
            else:
                b = draw(st.integers(0, 255))
            case = draw(st.sampled_from(["l", "u", "m"]))
            h = f"{b:02x}"
            if case == "u":
                h = h.upper()
            elif case == "m":
                h = h[0].upper() + h[1].lower()
            text.append("\\" + h)
            out.append(b)
            stats["esc"] += 1
            if draw(st.integers(0, 5)) == 0:
                # the *text* of that escape as literal value content, before or after it: an escaped backslash followed
                # by the same two hex digits (a decoder that substitutes escapes in several passes re-reads it)
                echo_t, echo_b = "\\5c" + h, b"\\" + h.encode()
                if draw(st.booleans()):
                    text.insert(len(text) - 1, echo_t)
                    out[len(out) - 1:len(out) - 1] = echo_b
                else:
                    text.append(echo_t)
                    out.extend(echo_b)
                stats["esc"] += 1
                stats["echo"] = stats.get("echo", 0) + 1
    return "".join(text), bytes(out), stats


def _merge(a: t.Dict[str, int], b: t.Dict[str, int]) -> t.Dict[str, int]:
    out = dict(a)
    for k, v in b.items():
        out[k] = out.get(k, 0) + v
    return out


@st.composite
def item_sentence(draw: t.Any, mixed_case_dn: bool = False) -> t.Tuple[str, t.Any, t.Dict[str, int]]:
    kind = draw(st.sampled_from(["eq", "eq", "ge", "le", "approx", "present", "sub", "sub", "ext", "ext"]))
    attr = draw(gens.memo("rfc4515.attr", gens.attr_desc))
    stats: t.Dict[str, int] = {f"item:{kind}": 1}
    if kind in ("eq", "ge", "le", "approx"):
        vt, vb, s = draw(value_atoms())
        op = {"eq": "=", "ge": ">=", "le": "<=", "approx": "~="}[kind]
        if kind == "eq" and vb == b"" and False:
            pass
        if not vb:
            stats["empty-value"] = 1
        return f"{attr}{op}{vt}", (kind, attr, vb), _merge(stats, s)
    if kind == "present":
        return f"{attr}=*", ("present", attr), stats
    if kind == "sub":
        has_i = draw(st.booleans())
        has_f = draw(st.booleans())
        n_any = draw(st.integers(0, 3))
        if not has_i and not has_f and n_any == 0:
            n_any = 1
        text = ""
        initial = final = None
        anys = []
        if has_i:
            vt, initial, s = draw(value_atoms(min_size=1))
            stats = _merge(stats, s)
            text += vt
        text += "*"
        for _ in range(n_any):
            vt, vb, s = draw(value_atoms(min_size=1))
            stats = _merge(stats, s)
            anys.append(vb)
            text += vt + "*"
        if has_f:
            vt, final, s = draw(value_atoms(min_size=1))
            stats = _merge(stats, s)
            text += vt
        return f"{attr}={text}", ("sub", attr, initial, anys, final), stats
    # extensible: the four forms
    form = draw(st.sampled_from(["attr", "attr-dn", "attr-rule", "attr-dn-rule", "rule", "dn-rule"]))
    rule = draw(gens.memo("rfc4515.rule", lambda: gens.matching_rule().filter(lambda r: r.lower() != "dn")))
    vt, vb, s = draw(value_atoms())
    dn_word = "dn"
    if mixed_case_dn:
        dn_word = draw(st.sampled_from(["dn", "DN", "Dn", "dN"]))
        if dn_word != "dn":
            stats["mixed-case-dn"] = 1
    head = ""
    a: t.Optional[str] = None
    r: t.Optional[str] = None
    dn = False
    if form.startswith("attr"):
        a = attr
        head = attr
    else:
        stats["ext-without-attr"] = 1
    if "dn" in form.split("-"):
        dn = True
        head += ":" + dn_word
    if "rule" in form:
        r = rule
        head += ":" + rule
    stats[f"ext:{form}"] = 1
    return f"{head}:={vt}", ("ext", r, a, vb, dn), _merge(stats, s)


def _sp(draw: t.Any, decorate: bool) -> str:
    if not decorate:
        return ""
    return draw(st.sampled_from(["", "", "", " ", "  ", "   "]))


@st.composite
def sentence(draw: t.Any, max_leaves: int = 6, decorate: bool = True, mixed_case_dn: bool = False) -> t.Dict[str, t.Any]:
    """A sentence of the RFC 4515 grammar (optionally decorated with library-tolerated spaces) and the tree it denotes."""
    deco = draw(st.booleans()) if decorate else False
    stats: t.Dict[str, int] = {}
    n_leaves = draw(st.integers(1, max_leaves))
    budget = [n_leaves]

    def build(depth: int) -> t.Tuple[str, t.Any, int]:
        nonlocal stats
        make_leaf = budget[0] <= 1 or depth > 12 or draw(st.integers(0, 2)) == 0
        if make_leaf:
            budget[0] -= 1
            text, tree, s = draw(item_sentence(mixed_case_dn))
            stats = _merge(stats, s)
            return "(" + _sp(draw, deco) + text + ")", tree, 0
        op = draw(st.sampled_from(["&", "|", "!"]))
        if op == "!":
            t1, tr1, d1 = build(depth + 1)
            return "(" + _sp(draw, deco) + "!" + _sp(draw, deco) + t1 + _sp(draw, deco) + ")", ("not", tr1), d1 + 1
        k = draw(st.integers(1, 3))
        parts = []
        trees = []
        dmax = 0
        for _ in range(k):
            t1, tr1, d1 = build(depth + 1)
            parts.append(t1 + _sp(draw, deco))
            trees.append(tr1)
            dmax = max(dmax, d1)
            if budget[0] <= 0:
                break
        return "(" + _sp(draw, deco) + op + _sp(draw, deco) + "".join(parts) + ")", ("and" if op == "&" else "or", trees), dmax + 1

    text, tree, depth = build(0)
    if deco:
        text = draw(st.sampled_from(["", " ", "  ", "\n", "\t "])) + text + draw(st.sampled_from(["", " ", "  ", "\n", " \t"]))
    return {"text": text, "tree": tree, "depth": depth, "decorated": deco and (" " in text or "\n" in text or "\t" in text), "stats": stats}


@st.composite
def deep_sentence(draw: t.Any, depth_range: t.Tuple[int, int] = (13, 60)) -> t.Dict[str, t.Any]:
    depth = draw(st.integers(*depth_range))
    text, tree, stats = draw(item_sentence())
    text = "(" + text + ")"
    for _ in range(depth):
        op = draw(st.sampled_from(["&", "|", "!"]))
        text = "(" + op + text + ")"
        tree = ("not", tree) if op == "!" else ("and" if op == "&" else "or", [tree])
    return {"text": text, "tree": tree, "depth": depth, "decorated": False, "stats": stats}


@st.composite
def very_deep_sentence(draw: t.Any, depths: t.Sequence[int] = (64, 99, 100, 101, 127, 128, 129, 200, 255, 256, 300)) -> t.Dict[str, t.Any]:
    """Nesting far beyond what ordinary sentences reach (well inside what the default interpreter stack allows: the
    parser needs about two frames per level); the operator pattern is short and read cyclically, some levels get a
    sibling item before or after the nested filter.  The case is the *recipe* (depth, pattern, innermost item) - the
    sentence and its tree are built by ``expand_deep`` inside the check, so cases stay small for transport and replay."""
    depth = draw(st.sampled_from(list(depths)))
    ops = draw(st.lists(st.sampled_from(["&", "|", "!", "&<", "|>"]), min_size=1, max_size=6))
    text, tree, stats = draw(item_sentence())
    return {"deep": {"depth": depth, "ops": ops, "item": [text, tree, stats]}}


def expand_deep(spec: t.Dict[str, t.Any]) -> t.Dict[str, t.Any]:
    depth, ops = spec["depth"], spec["ops"]
    text, tree, stats = spec["item"]
    text = "(" + text + ")"
    for i in range(depth):
        op = ops[i % len(ops)]
        if op == "!":
            text, tree = "(!" + text + ")", ("not", tree)
        elif len(op) == 1:
            text, tree = "(" + op + text + ")", ("and" if op == "&" else "or", [tree])
        elif op[1] == "<":
            text, tree = "(" + op[0] + "(s=1)" + text + ")", ("and" if op[0] == "&" else "or", [("eq", "s", b"1"), tree])
        else:
            text, tree = "(" + op[0] + text + "(s=2))", ("and" if op[0] == "&" else "or", [tree, ("eq", "s", b"2")])
    return {"text": text, "tree": tree, "depth": depth, "decorated": False, "stats": stats}
