"""Symbolic-step histories: strategies, executor, model lock-step interpreter.

A history is a plain list of steps (JSON-able), e.g.
    {"op": "call", "what": "search", "v": 1}
    {"op": "respond", "kind": "done", "id": ["open", 2], "code": 0, "v": 0}
    {"op": "recv", "msgs": [{"kind": "searchResEntry", "id": ["search", 0], "code": 0, "v": 0}]}
    {"op": "garbage", "data": b"..."}
    {"op": "drain", "amount": 7}
Symbolic id references are resolved against the reference model when the step runs, so any
list of steps is a valid history and the whole list shrinks as one value.
"""

from __future__ import annotations

import typing as t

from hypothesis import strategies as st

from . import absval, ber, gens, model, msgcheck, rfc4511, sess

NOTICE = rfc4511.OID_NOTICE_OF_DISCONNECTION

# ---------------------------------------------------------------------------------------- call variants


def _lib() -> t.Any:
    return sess.lib()


UNENCODABLE = "x\udc80"  # a str that cannot be encoded as UTF-8: the call fails while its message is being packed


def client_call_spec(what: str, v: int, bad: bool = False) -> t.Tuple[str, t.Dict[str, t.Any], t.Dict[str, t.Any]]:
    """-> (method name, kwargs, expected abstract message without id); bad=True: the same call with a string argument
    that cannot be encoded (it must fail and leave no trace)"""
    if bad and what != "unbind":
        meth, kw, exp = client_call_spec(what, v)
        field = {"bind_simple": "dn", "bind_sasl": "mechanism", "search_request": "base_object", "extended_request": "name"}[meth]
        return meth, dict(kw, **{field: UNENCODABLE}), exp
    s = _lib()
    if what == "bind":
        if v == 9:  # present but empty credentials
            return "bind_sasl", {"mechanism": "EXTERNAL", "cred": b""}, {"kind": "bindRequest", "controls": [], "version": 3, "name": "", "auth": ("sasl", "EXTERNAL", b"")}
        v %= 5
        if v == 0:
            return "bind_simple", {}, {"kind": "bindRequest", "controls": [], "version": 3, "name": "", "auth": ("simple", "")}
        if v == 1:
            return "bind_simple", {"dn": "cn=user,dc=x", "password": "pw"}, {"kind": "bindRequest", "controls": [], "version": 3, "name": "cn=user,dc=x", "auth": ("simple", "pw")}
        if v == 2:
            return "bind_sasl", {"mechanism": "GSSAPI", "cred": b"tok" * 50}, {"kind": "bindRequest", "controls": [], "version": 3, "name": "", "auth": ("sasl", "GSSAPI", b"tok" * 50)}
        if v == 3:
            return "bind_sasl", {"mechanism": "EXTERNAL"}, {"kind": "bindRequest", "controls": [], "version": 3, "name": "", "auth": ("sasl", "EXTERNAL", None)}
        return (
            "bind_simple",
            {"controls": [s.LDAPControl("1.2.3", True, b"v")]},
            {"kind": "bindRequest", "controls": [("generic", "1.2.3", True, b"v")], "version": 3, "name": "", "auth": ("simple", "")},
        )
    if what == "search":
        v = v if v in (8, 9) else v % 4
        base = {"kind": "searchRequest", "controls": [], "base": "", "scope": 2, "deref": 0, "size": 0, "time": 0, "typesOnly": False,
                "filter": ("present", "objectClass"), "attributes": []}
        if v == 0:
            return "search_request", {}, base
        if v == 1:
            kw = dict(base_object="dc=x", scope=1, dereferencing_policy=3, size_limit=10, time_limit=20, types_only=True,
                      filter=s.FilterEquality("cn", b"a*b"), attributes=["cn", "*"])
            return "search_request", kw, dict(base, base="dc=x", scope=1, deref=3, size=10, time=20, typesOnly=True,
                                              filter=("eq", "cn", b"a*b"), attributes=["cn", "*"])
        if v in (8, 9):
            # every argument given explicitly with its falsy value (scope BASE = 0, NEVER = 0, limits 0, False, [], "")
            kw = dict(base_object="", scope=s.SearchScope.BASE if v == 8 else 0, dereferencing_policy=s.DereferencingPolicy.NEVER if v == 8 else 0,
                      size_limit=0, time_limit=0, types_only=False, filter=s.FilterPresent("objectClass"), attributes=[], controls=[])
            return "search_request", kw, dict(base, scope=0)
        if v == 2:
            return ("search_request", {"controls": [s.PagedResultControl(False, 100, b"")]},
                    dict(base, controls=[("paged", False, 100, b"")]))
        long = "ou=" + "x" * 200
        return "search_request", {"base_object": long}, dict(base, base=long)
    if what == "extended":
        if v == 11:
            big = b"\xa5" * 70000  # a message larger than 64 KiB (buffers sometimes switch strategy at such sizes)
            return "extended_request", {"name": "1.2.840", "value": big}, {"kind": "extendedReq", "controls": [], "name": "1.2.840", "value": big}
        if v == 9:  # present but empty value
            return "extended_request", {"name": "1.2.9", "value": b""}, {"kind": "extendedReq", "controls": [], "name": "1.2.9", "value": b""}
        v %= 3
        if v == 0:
            return "extended_request", {"name": "1.3.6.1.4.1.1466.20037"}, {"kind": "extendedReq", "controls": [], "name": "1.3.6.1.4.1.1466.20037", "value": None}
        if v == 1:
            return "extended_request", {"name": "1.2", "value": b"value"}, {"kind": "extendedReq", "controls": [], "name": "1.2", "value": b"value"}
        return ("extended_request", {"name": "1.2.3", "controls": [s.ShowDeletedControl(True)]},
                {"kind": "extendedReq", "controls": [("showDeleted", True)], "name": "1.2.3", "value": None})
    if what == "unbind":
        return "unbind", {}, {"kind": "unbindRequest", "controls": []}
    raise ValueError(what)


def server_call_spec(kind: str, mid: int, code: int, v: int, bad: bool = False) -> t.Tuple[str, t.Dict[str, t.Any], t.Dict[str, t.Any], t.Optional[str]]:
    """-> (method, kwargs, expected abstract message, extended-response name)"""
    if bad and kind != "unbind":
        meth, kw, exp, name = server_call_spec(kind, mid, code, v)
        if kind == "entry":
            kw = dict(kw, object_name=UNENCODABLE)
        elif kind == "ref":
            kw = dict(kw, uris=["ldap://r", UNENCODABLE])
        else:
            kw = dict(kw, **{("matched_dn" if v % 2 else "diagnostics_message"): UNENCODABLE})
        return meth, kw, exp, name
    s = _lib()
    rc = s.LDAPResultCode(code)
    res = {"code": code, "matched": "", "diag": "", "referral": []}
    rkw: t.Dict[str, t.Any] = {"result_code": rc}
    if v % 2 == 1:
        rkw.update(matched_dn="dc=m", diagnostics_message="diag " * 30)
        res = {"code": code, "matched": "dc=m", "diag": "diag " * 30, "referral": []}
    if kind == "bind":
        creds = b"" if v == 9 else b"srv" if v % 3 == 2 else None
        return "bind_response", dict(rkw, message_id=mid, sasl_creds=creds), {"kind": "bindResponse", "id": mid, "controls": [], "result": res, "sasl": creds}, None
    if kind == "entry" and v == 11:
        big = b"\x5a" * 70000
        return ("search_result_entry", {"message_id": mid, "object_name": "cn=big", "attributes": [s.PartialAttribute("jpegPhoto", [big])]},
                {"kind": "searchResEntry", "id": mid, "controls": [], "name": "cn=big", "attributes": [("jpegPhoto", [big])]}, None)
    if kind == "entry" and v == 8:
        # repeated values and a repeated attribute: every one of them is sent and received
        vals = [b"u1", b"u2", b"u1", b"u1"]
        return ("search_result_entry", {"message_id": mid, "object_name": "cn=e", "attributes": [s.PartialAttribute("member", vals), s.PartialAttribute("member", vals)]},
                {"kind": "searchResEntry", "id": mid, "controls": [], "name": "cn=e", "attributes": [("member", vals), ("member", vals)]}, None)
    if kind == "entry":
        attrs = [s.PartialAttribute("cn", [b"v1", b"v2"])] if v % 2 else []
        return ("search_result_entry", {"message_id": mid, "object_name": "cn=e", "attributes": attrs},
                {"kind": "searchResEntry", "id": mid, "controls": [], "name": "cn=e", "attributes": [("cn", [b"v1", b"v2"])] if v % 2 else []}, None)
    if kind == "ref":
        return ("search_result_reference", {"message_id": mid, "uris": ["ldap://r"]},
                {"kind": "searchResRef", "id": mid, "controls": [], "uris": ["ldap://r"]}, None)
    if kind == "done":
        return "search_result_done", dict(rkw, message_id=mid), {"kind": "searchResDone", "id": mid, "controls": [], "result": res}, None
    if kind == "extended":
        name = "1.2.9" if v % 3 == 1 else None
        value = b"" if v == 9 else b"val" if v % 3 == 2 else None
        return ("extended_response", dict(rkw, message_id=mid, name=name, value=value),
                {"kind": "extendedResp", "id": mid, "controls": [], "result": res, "name": name, "value": value}, name)
    if kind == "notice":
        return ("extended_response", dict(rkw, message_id=mid, name=NOTICE),
                {"kind": "extendedResp", "id": mid, "controls": [], "result": res, "name": NOTICE, "value": None}, NOTICE)
    if kind == "unbind":
        return "unbind", {}, {"kind": "unbindRequest", "id": 0, "controls": []}, None
    raise ValueError(kind)


def peer_message(kind: str, mid: int, code: int, v: int, name: t.Optional[str] = None) -> t.Dict[str, t.Any]:
    """A well-formed message as the peer would send it (abstract form)."""
    res = {"code": code, "matched": "", "diag": "x" * (v % 3) * 70, "referral": None}
    base = {"kind": kind, "id": mid, "controls": [("generic", "1.1", False, None)] if v % 4 == 3 else []}
    if kind == "bindRequest":
        base.update(version=3, name="cn=u", auth=("simple", "p") if v % 2 == 0 else ("sasl", "PLAIN", b"c"))
    elif kind == "bindResponse":
        base.update(result=res, sasl=b"s" if v % 2 else None)
    elif kind == "unbindRequest":
        pass
    elif kind == "searchRequest":
        base.update(base="dc=x", scope=2, deref=0, size=0, time=0, typesOnly=False, filter=("present", "cn"), attributes=[])
    elif kind == "searchResEntry":
        base.update(name="cn=e", attributes=[("cn", [b"v"])] if v != 8 else [("m", [b"a", b"b", b"a"]), ("m", [b"a", b"b", b"a"])])
    elif kind == "searchResDone":
        base.update(result=res)
    elif kind == "searchResRef":
        base.update(uris=["ldap://r"])
    elif kind == "extendedReq":
        base.update(name="1.2.3", value=None)
    elif kind == "extendedResp":
        base.update(result=res, name=name, value=None)
    else:
        raise ValueError(kind)
    return base


# ---------------------------------------------------------------------------------------- strategies

# complete top-level units that are not LDAP messages (an incomplete unit would just be buffered)
GARBAGE = [b"\x04\x00", b"\x31\x00", b"\x30\x80", b"\x30\x03\x02\x01\x01", b"\x30\x05\x02\x01\x01\x7f\x00", b"\x30\x06\x02\x01\x01\x04\x01\x00"]

_CODES = st.sampled_from([0, 0, 0, 14, 14, 49, 32, 2, 80, 4096, -3])
_V = st.integers(0, 11)
_BAD = st.sampled_from([False] * 11 + [True])  # 1 call in 12 carries an argument that cannot be encoded


def id_refs(kinds: t.Sequence[str]) -> t.Any:
    alts = []
    for k in kinds:
        if k == "zero":
            alts.append(st.just(("zero",)))
        elif k == "alias":
            alts.append(st.tuples(st.just(k), st.integers(0, 23)))
        else:
            alts.append(st.tuples(st.just(k), st.integers(0, 5)))
    return st.one_of(*alts)


def _weighted(pairs: t.Sequence[t.Tuple[int, t.Any]]) -> t.Any:
    # one_of() collapses repeated alternatives, so weights are drawn explicitly
    idx = []
    strats = []
    for i, (w, strat) in enumerate(pairs):
        idx.extend([i] * w)
        strats.append(strat)
    return st.sampled_from(idx).flatmap(lambda i: strats[i])


def _sized_list(elem: t.Any, max_steps: int) -> t.Any:
    """Lists whose length is spread over 1..max_steps (Hypothesis' own lists are short on average)."""
    sizes = sorted({1, 2, 4, 8, max(1, max_steps // 4), max(1, max_steps // 2), max(1, 3 * max_steps // 4), max_steps})
    return st.sampled_from(sizes).flatmap(lambda n: st.lists(elem, min_size=max(1, n // 2), max_size=n))


def client_steps(max_steps: int = 40, drains: bool = False, closers: bool = True) -> t.Any:
    """Mostly conversation-preserving steps; closing steps are rare so that deep states are reached,
    and every history may continue after closure."""
    call = st.fixed_dictionaries({"op": st.just("call"), "what": st.sampled_from(["search", "search", "extended", "extended", "bind"]), "v": _V, "bad": _BAD})
    resp_kinds = st.sampled_from(["bindResponse", "searchResEntry", "searchResRef", "searchResDone", "extendedResp"])
    req_kinds = st.sampled_from(["bindRequest", "searchRequest", "extendedReq", "unbindRequest"])
    good_ids = id_refs(["open", "open", "search", "single"])
    bad_ids = id_refs(["completed", "last-completed", "last-completed", "never", "zero", "neg", "alias"])
    auto = st.fixed_dictionaries({"kind": st.just("auto"), "final": st.booleans(), "id": good_ids, "code": _CODES, "v": _V,
                                  "name": st.none(), "strict": st.just(True)})
    mismatch = st.fixed_dictionaries({"kind": resp_kinds, "id": good_ids, "code": _CODES, "v": _V, "name": st.none(), "strict": st.just(True)})
    msg_bad = st.one_of(
        st.fixed_dictionaries({"kind": resp_kinds, "id": bad_ids, "code": _CODES, "v": _V, "name": st.none(), "strict": st.booleans()}),
        st.fixed_dictionaries({"kind": req_kinds, "id": st.one_of(good_ids, bad_ids), "code": st.just(0), "v": _V, "name": st.none(), "strict": st.just(False)}),
        st.fixed_dictionaries({"kind": st.just("extendedResp"), "id": st.one_of(good_ids, id_refs(["zero"])), "code": _CODES, "v": _V,
                               "name": st.just(NOTICE), "strict": st.just(False)}),
    )
    recv_good = st.fixed_dictionaries({"op": st.just("recv"), "msgs": st.lists(_weighted([(5, auto), (1, mismatch)]), min_size=1, max_size=3)})
    recv_bad = st.fixed_dictionaries({"op": st.just("recv"), "msgs": st.lists(_weighted([(2, auto), (1, msg_bad)]), min_size=1, max_size=3)})
    garbage = st.fixed_dictionaries({"op": st.just("garbage"), "data": st.sampled_from(GARBAGE)})
    unbind = st.just({"op": "call", "what": "unbind", "v": 0})

    # scripted deliveries: the whole life of ONE operation inside a single receive() call, with a message for the id that
    # an earlier message of the same delivery has just completed (ids are resolved message by message)
    def msg(kind: str, idref: t.Tuple[t.Any, ...], final: bool = False, v: int = 0) -> t.Dict[str, t.Any]:
        return {"kind": kind, "final": final, "id": idref, "code": 0, "v": v, "name": None, "strict": True}

    def scripts(k: int) -> t.List[t.List[t.Dict[str, t.Any]]]:
        S, L = ("search", k), ("last-completed", 0)
        return [
            [msg("auto", S, v=0), msg("auto", S, True), msg("searchResEntry", L)],
            [msg("auto", S, v=1), msg("auto", S, True), msg("searchResRef", L)],
            [msg("auto", S, True), msg("searchResDone", L)],
            [msg("auto", S, v=0), msg("auto", S, v=0), msg("auto", S, True), msg("searchResEntry", L), msg("auto", ("open", k))],
            [msg("auto", ("single", k), True), msg("extendedResp", L)],
            [msg("auto", ("single", k), True), msg("bindResponse", L)],
            [msg("auto", ("open", k), True), msg("auto", ("open", k + 1), True), msg("searchResEntry", L)],
        ]

    recv_script = st.tuples(st.integers(0, 5), st.integers(0, 6)).map(lambda kn: {"op": "recv", "msgs": scripts(kn[0])[kn[1]]})
    keep = [(8, call), (9, recv_good)]
    if drains:
        keep.append((7, drain_step()))
    close = [(1, unbind), (1, garbage), (2, recv_bad), (2, recv_script)]
    body = _sized_list(_weighted(keep + ([(1, st.one_of(unbind, garbage, recv_bad, recv_bad, recv_script))] if closers else [])), max_steps)
    if not closers:
        return body
    tail = st.lists(_weighted(keep + close * 3), max_size=6)
    closer = st.lists(st.one_of(unbind, garbage, recv_bad, recv_script), max_size=1)
    return st.tuples(body, closer, tail).map(lambda x: x[0] + x[1] + x[2])


def server_steps(max_steps: int = 40, drains: bool = False, closers: bool = True) -> t.Any:
    req_kinds = st.sampled_from(["searchRequest", "extendedReq"])
    fresh = id_refs(["fresh", "fresh", "fresh", "fresh", "completed"])
    bind_req = st.fixed_dictionaries({"op": st.just("recv"), "msgs": st.lists(
        st.fixed_dictionaries({"kind": st.just("bindRequest"), "id": fresh, "code": st.just(0), "v": _V, "name": st.none()}), min_size=1, max_size=1)})
    msg_ok = st.fixed_dictionaries({"kind": req_kinds, "id": fresh, "code": st.just(0), "v": _V, "name": st.none()})
    msg_bad = st.one_of(
        st.fixed_dictionaries({"kind": st.sampled_from(["bindResponse", "searchResEntry", "searchResDone", "searchResRef", "extendedResp"]),
                               "id": id_refs(["open", "fresh", "zero"]), "code": _CODES, "v": _V, "name": st.sampled_from([None, NOTICE])}),
        st.fixed_dictionaries({"kind": st.just("unbindRequest"), "id": id_refs(["zero", "fresh"]), "code": st.just(0), "v": _V, "name": st.none()}),
    )
    recv_good = st.fixed_dictionaries({"op": st.just("recv"), "msgs": st.lists(msg_ok, min_size=1, max_size=3)})
    recv_bad = st.fixed_dictionaries({"op": st.just("recv"), "msgs": st.lists(_weighted([(2, msg_ok), (1, msg_bad)]), min_size=1, max_size=3)})
    any_ids = id_refs(["open", "open", "open", "open", "search", "single", "completed", "last-completed", "last-completed", "never", "zero", "alias", "alias"])
    respond_auto = st.fixed_dictionaries({"op": st.just("respond"), "kind": st.just("auto"), "final": st.booleans(),
                                          "id": id_refs(["open", "open", "search", "single"]), "code": _CODES, "v": _V, "bad": _BAD})
    respond_any = st.fixed_dictionaries({"op": st.just("respond"), "kind": st.sampled_from(["bind", "entry", "ref", "done", "extended"]),
                                         "id": any_ids, "code": _CODES, "v": _V, "bad": _BAD})
    notice = st.fixed_dictionaries({"op": st.just("respond"), "kind": st.just("notice"), "id": any_ids, "code": _CODES, "v": _V})
    unbind = st.just({"op": "call", "what": "unbind", "v": 0})
    garbage = st.fixed_dictionaries({"op": st.just("garbage"), "data": st.sampled_from(GARBAGE)})
    keep = [(7, recv_good), (9, respond_auto), (5, respond_any), (2, bind_req)]
    if drains:
        keep.append((8, drain_step()))
    close = [(1, unbind), (1, garbage), (2, recv_bad), (1, notice)]
    body = _sized_list(_weighted(keep + ([(1, st.one_of(unbind, garbage, recv_bad, notice))] if closers else [])), max_steps)
    if not closers:
        return body
    tail = st.lists(_weighted(keep + close * 3), max_size=6)
    closer = st.lists(st.one_of(unbind, garbage, recv_bad, notice), max_size=1)
    return st.tuples(body, closer, tail).map(lambda x: x[0] + x[1] + x[2])


def drain_step() -> t.Any:
    amounts = _weighted([
        (1, st.none()),
        (1, st.just(0)),
        (7, st.integers(1, 14)),
        (2, st.integers(15, 300)),
        (3, st.tuples(st.just("pending"), st.integers(-3, 3))),
        (1, st.just(10**9)),
    ])
    return st.fixed_dictionaries({"op": st.just("drain"), "amount": amounts})


# ---------------------------------------------------------------------------------------- executor


class Outcome(t.NamedTuple):
    kind: str  # "call" | "recv" | "garbage" | "drain"
    ok: bool  # call accepted / delivery returned normally
    exc: t.Optional[BaseException]
    value: t.Any  # returned id / abstract messages
    expected_msg: t.Optional[t.Dict[str, t.Any]]  # for calls: what should have been emitted (id filled in when known)
    info: t.Dict[str, t.Any]


def exec_step(s: t.Any, side: str, step: t.Dict[str, t.Any], mdl: model.Model) -> Outcome:
    """Execute one step on the real session. Never raises for library exceptions."""
    op = step["op"]
    if op == "call" and not (side == "server" and step["what"] != "unbind"):
        what = step["what"]
        bad = bool(step.get("bad")) and what != "unbind"
        meth, kw, exp = client_call_spec(what, step.get("v", 0), bad)
        try:
            r = getattr(s, meth)(**kw)
        except BaseException as e:
            return Outcome("call", False, e, None, exp, {"what": what, "unencodable": bad})
        exp = dict(exp)
        if what != "unbind":
            exp["id"] = r
        else:
            exp["id"] = 0
        return Outcome("call", True, None, r, exp, {"what": what, "unencodable": bad})
    if op == "respond":
        mid = mdl.resolve(step["id"])
        kind = step["kind"]
        if kind == "auto":
            # the response kind that matches the request (non-final or final for searches)
            ok = mdl.opkind.get(mid, "extended")
            kind = {"bind": "bind", "extended": "extended"}.get(ok) or (["entry", "ref"][step.get("v", 0) % 2] if not step.get("final") else "done")
        bad = bool(step.get("bad"))
        meth, kw, exp, name = server_call_spec(kind, mid, step.get("code", 0), step.get("v", 0), bad)
        step = dict(step, kind=kind)
        try:
            r = getattr(s, meth)(**kw)
        except BaseException as e:
            return Outcome("call", False, e, None, exp, {"what": kind, "id": mid, "name": name, "unencodable": bad})
        return Outcome("call", True, None, r, exp, {"what": kind, "id": mid, "name": name, "unencodable": bad})
    if op == "recv":
        msgs = []
        scratch = mdl.clone()  # ids are resolved message by message, as the delivery would be processed
        for m in step["msgs"]:
            mid = scratch.resolve(m["id"], strict=bool(m.get("strict")))
            if mid is None:
                continue  # nothing of that class in progress: the message is left out
            kind = m["kind"]
            if kind == "auto":
                ok = scratch.opkind.get(mid, "extended")
                kind = {"bind": "bindResponse", "extended": "extendedResp"}.get(ok) or (
                    ["searchResEntry", "searchResRef"][m.get("v", 0) % 2] if not m.get("final") else "searchResDone")
            pm = peer_message(kind, mid, m.get("code", 0), m.get("v", 0), m.get("name"))
            msgs.append(pm)
            scratch.incoming(kind, mid, m.get("code", 0), m.get("name") if kind == "extendedResp" else None)
        if not msgs:
            return Outcome("recv", True, None, [], None, {"msgs": []})
        data = b"".join(rfc4511.encode(m) for m in msgs)
        try:
            r = s.receive(data)
        except BaseException as e:
            return Outcome("recv", False, e, None, None, {"msgs": msgs})
        return Outcome("recv", True, None, [absval.to_abstract(x, decoded=True) for x in r], None, {"msgs": msgs})
    if op == "garbage":
        try:
            r = s.receive(step["data"])
        except BaseException as e:
            return Outcome("garbage", False, e, None, None, {})
        return Outcome("garbage", True, None, [absval.to_abstract(x, decoded=True) for x in r], None, {})
    if op == "register":
        from . import custom

        cls = custom.classes(step.get("variant", "A"))[step["what"]]
        meth = {"control": "register_control", "filter": "register_filter", "auth": "register_auth_credential"}[step["what"]]
        try:
            getattr(s, meth)(cls)
        except BaseException as e:
            return Outcome("register", False, e, None, None, {"what": step["what"]})
        return Outcome("register", True, None, None, None, {"what": step["what"]})
    if op == "call-custom":
        from . import custom

        C = custom.classes()
        what = step["what"]
        v = step.get("v", 0)
        try:
            if what == "filter":
                r = s.search_request(base_object="dc=c", filter=C["filter"](value=f"f{v}"))
            elif what == "auth":
                r = s.bind("cn=c", C["auth"](username=f"u{v}", password="pw"))
            else:
                r = s.extended_request("1.2.3.4", controls=[C["control"](critical=bool(v % 2), size=v)])
        except BaseException as e:
            return Outcome("call", False, e, None, None, {"what": {"filter": "search", "auth": "bind", "control": "extended"}[what]})
        return Outcome("call", True, None, r, None, {"what": {"filter": "search", "auth": "bind", "control": "extended"}[what]})
    if op == "recv-custom":
        from . import custom

        what = step["what"]
        v = step.get("v", 0)
        ctrl = [("generic", custom.OID_CUSTOM_CONTROL, bool(v % 2), (v * 1000 + 7).to_bytes(4, "big"))]
        if side == "server":
            mid = mdl.resolve(("fresh", v))
            if what == "filter":
                m = peer_message("searchRequest", mid, 0, 0)
                m["filter"] = custom_filter_in(("custom", custom.CUSTOM_FILTER_ID, f"flt{v}".encode()), v)
            elif what == "auth":
                m = peer_message("bindRequest", mid, 0, 0)
                m["auth"] = ("custom", custom.CUSTOM_AUTH_ID, f"user{v}:secret".encode())
            else:
                m = peer_message("extendedReq", mid, 0, 0)
                m["controls"] = ctrl
        else:
            mid = mdl.resolve(("open", v))
            okind = mdl.opkind.get(mid, "extended")
            kind = {"bind": "bindResponse", "extended": "extendedResp"}.get(okind, "searchResEntry")
            m = peer_message(kind, mid, 0, 0)
            m["controls"] = ctrl
        try:
            r = s.receive(rfc4511.encode(m))
        except BaseException as e:
            return Outcome("recv", False, e, None, None, {"msgs": [m]})
        return Outcome("recv", True, None, [absval.to_abstract(x, decoded=True) for x in r], None, {"msgs": [m]})
    raise ValueError(f"unknown step {step!r}")


def custom_filter_in(leaf: t.Any, v: int) -> t.Any:
    """The custom filter at the top level or below and / or / not (v selects the position)."""
    other = ("present", "cn")
    return [leaf, ("and", [other, leaf]), ("or", [leaf, other]), ("not", leaf), ("and", [("or", [other, ("not", leaf)])]), ("or", [("and", [leaf])])][v % 6]


# ---------------------------------------------------------------------------------------- lock-step interpreter


class Finding(t.NamedTuple):
    clause: str
    key: str
    detail: str


class Trace:
    def __init__(self) -> None:
        self.findings: t.List[Finding] = []
        self.events: t.List[str] = []
        self.steps_run = 0
        self.steps_after_closed = 0
        self.refused_calls = 0
        self.accepted_calls = 0
        self.ids: t.List[int] = []
        self.resolved: t.List[t.Any] = []
        self.emitted = b""
        self.diverged = False

    def add(self, clause: str, key: str, detail: str) -> None:
        self.findings.append(Finding(clause, key, detail))


def _peek(s: t.Any) -> bytes:
    """The complete pending outgoing stream, observed on a clone (non-destructive)."""
    import copy

    return copy.deepcopy(s).data_to_send()


def run_lockstep(side: str, steps: t.Sequence[t.Dict[str, t.Any]], probe_open: bool = True, pending: bool = False) -> Trace:
    """pending=False: the outgoing stream is drained completely after every step (bytes are attributed to calls).
    pending=True: the history's own drain steps are executed (partial drains leave bytes pending) and the stream is
    observed before and after every step on clones, so 'a refused call leaves the outgoing byte stream exactly as it
    was' is checked with bytes pending and partially drained."""
    LDAPError, ProtocolError = sess.errors()
    tr = Trace()
    s = sess.new(side)
    mdl = model.Model(side)
    seen_closed = False

    def ctx(i: int, step: t.Any) -> str:
        return f"step {i} {step!r} (model: {mdl.state}, open {dict(mdl.open)})"

    for i, step in enumerate(steps):
        if step["op"] == "drain":
            if pending:
                amount = step["amount"]
                if isinstance(amount, tuple):
                    amount = max(0, len(_peek(s)) + amount[1])
                try:
                    s.data_to_send(amount)
                except BaseException as e:
                    tr.add("refusal-type", f"{side}:drain-raised-{type(e).__name__}", f"step {i} {step!r}: {e!r}")
                    tr.diverged = True
                    break
                tr.events.append("drain:partial" if _peek(s) else "drain:to-empty")
            continue  # (without pending mode everything is drained after each step; drain schedules are C12's business)
        before_state = sess.state(s)
        was_closed = seen_closed
        pre = mdl.clone()
        before_stream = _peek(s) if pending else b""
        out = exec_step(s, side, step, mdl)
        if out.kind == "recv" and not out.info["msgs"]:
            continue  # every message of the step was left out (nothing in progress to answer)
        if pending:
            after_stream = _peek(s)
            if after_stream[: len(before_stream)] != before_stream:
                what = "accepted" if out.ok else "refused"
                tr.add("refused-bytes" if not out.ok else "emitted", f"{side}:pending-bytes-altered-by-{what}-{out.kind}",
                       f"{ctx(i, step)}: {len(before_stream)} bytes were pending ({before_stream[:40].hex()}...), afterwards the stream is "
                       f"{after_stream[:80].hex()} ({len(after_stream)} bytes)")
                tr.diverged = True
                break
            emitted = after_stream[len(before_stream):]
            if before_stream:
                tr.events.append(f"{out.kind}-with-bytes-pending:{'ok' if out.ok else 'refused'}")
        else:
            emitted = sess.drain(s)
        after_state = sess.state(s)
        tr.steps_run += 1
        if was_closed:
            tr.steps_after_closed += 1
        where = ctx(i, step)

        # ---- absorption: once CLOSED was observed nothing may happen any more
        if was_closed:
            if after_state != "CLOSED":
                tr.add("closed-absorbing", f"{side}:left-CLOSED", f"{where}: state {before_state} -> {after_state}")
                tr.diverged = True
                break
            if out.ok:
                tr.add("closed-absorbing", f"{side}:{out.kind}-accepted-after-CLOSED", where)
                tr.diverged = True
                break
            if emitted:
                tr.add("closed-absorbing", f"{side}:bytes-emitted-after-CLOSED", f"{where}: {emitted.hex()}")
                tr.diverged = True
                break
            if out.kind == "call" and not isinstance(out.exc, LDAPError) and not out.info.get("unencodable"):
                tr.add("refusal-type", f"{side}:call-raised-{type(out.exc).__name__}", f"{where}: {out.exc!r}")
            if out.kind in ("recv", "garbage") and not isinstance(out.exc, ProtocolError):
                tr.add("refusal-type", f"{side}:receive-raised-{type(out.exc).__name__}", f"{where}: {out.exc!r}")
            continue

        if out.kind == "call":
            what = out.info["what"]
            if side == "client" or what == "unbind":
                verdict = pre.client_call(what) if side == "client" else pre.server_call("unbind", 0)
            else:
                verdict = pre.server_call(what if what != "notice" else "extended", out.info["id"], step.get("code", 0), out.info["name"])
            if out.info.get("unencodable"):
                # a call whose message cannot be packed fails (with whatever error) and must be a no-op, whether or not
                # the session would have accepted the same call with encodable arguments
                tr.events.append(f"call:{what}:{pre.state}:unencodable-argument:{'else-accept' if verdict.accepted else 'else-refuse'}")
                if out.ok:
                    # (a library that can encode such text after all - e.g. with an error handler - is not judged here:
                    # what its bytes must be is C01/C03's business; the history ends because the model cannot follow)
                    tr.events.append("call-with-unencodable-argument-accepted:history-ends")
                    tr.diverged = True
                    break
                tr.refused_calls += 1
                if emitted:
                    tr.add("refused-bytes", f"{side}:failed-call-left-bytes", f"{where}: raised {out.exc!r} but left {emitted.hex()}")
                if after_state == "OPEN" and mdl.state == "NEW":
                    mdl.refused_call_leniency()
                if after_state != mdl.state:
                    tr.add("state", f"{side}:failed-call-changed-state", f"{where}: {before_state} -> {after_state}")
                    tr.diverged = True
                    break
                if probe_open:
                    bad = _probe(s, side, mdl)
                    if bad:
                        tr.add("open-set", f"{side}:failed-call-changed-operations-in-progress", f"{where}: {bad}")
                continue
            tr.events.append(f"call:{what}:{pre.state}:{'accept' if verdict.accepted else 'refuse:' + verdict.why}")
            if out.ok != verdict.accepted:
                if out.ok:
                    tr.add("call-accept", f"{side}:call-accepted-but-must-be-refused({verdict.why})", f"{where}: returned {out.value!r}, emitted {emitted.hex()}")
                else:
                    tr.add("call-accept", f"{side}:call-refused-but-must-be-accepted", f"{where}: raised {out.exc!r}; bytes in the stream after the call: {emitted.hex()}")
                    if emitted:
                        tr.add("refused-bytes", f"{side}:failed-call-left-bytes", f"{where}: raised {out.exc!r} but left {emitted.hex()}")
                    if not isinstance(out.exc, LDAPError):
                        tr.add("refusal-type", f"{side}:call-raised-{type(out.exc).__name__}", f"{where}: {out.exc!r}")
                tr.diverged = True
                break
            if not out.ok:
                tr.refused_calls += 1
                if not isinstance(out.exc, LDAPError):
                    tr.add("refusal-type", f"{side}:call-raised-{type(out.exc).__name__}", f"{where}: {out.exc!r}")
                if emitted:
                    tr.add("refused-bytes", f"{side}:refused-call-left-bytes", f"{where}: raised {out.exc!r} but left {emitted.hex()}")
                # leniency: NEW may become OPEN on a refused call
                if after_state == "OPEN" and mdl.state == "NEW":
                    mdl.refused_call_leniency()
                if after_state != mdl.state:
                    tr.add("state", f"{side}:refused-call-changed-state", f"{where}: {before_state} -> {after_state}")
                    tr.diverged = True
                    break
                if probe_open:
                    bad = _probe(s, side, mdl)
                    if bad:
                        # recorded, but the history goes on: the consequences (a later call wrongly refused or
                        # accepted) belong to other clauses
                        tr.add("open-set", f"{side}:refused-call-changed-operations-in-progress", f"{where}: {bad}")
                continue
            # accepted call
            tr.accepted_calls += 1
            if side == "client" or what == "unbind":
                if side == "client":
                    mdl.client_called(what, out.value if what != "unbind" else None)
                    if what != "unbind":
                        tr.ids.append(out.value)
                else:
                    mdl.server_called("unbind", 0)
            else:
                mdl.server_called(what if what != "notice" else "extended", out.info["id"], step.get("code", 0), out.info["name"])
                if out.value != out.info["id"]:
                    tr.add("emitted", f"{side}:response-call-returned-wrong-id", f"{where}: returned {out.value!r}")
            tr.emitted += emitted
            _check_emitted(tr, side, emitted, out, where)
            if after_state != mdl.state:
                tr.add("state", f"{side}:state-after-accepted-{'call' if side == 'client' else 'response'}", f"{where}: state is {after_state}, model says {mdl.state}")
                tr.diverged = True
                break
            if after_state == "CLOSED":
                seen_closed = True
            continue

        # ---- deliveries
        if out.kind == "garbage":
            tr.events.append(f"garbage:{pre.state}")
            if out.ok:
                # incomplete garbage is buffered; the model does not track the buffer, so stop here
                if out.value:
                    tr.add("recv-accept", f"{side}:garbage-produced-messages", where)
                tr.diverged = True  # (no finding) the probes below would mix with the buffered bytes
                break
            mdl._close()
            if not isinstance(out.exc, ProtocolError):
                tr.add("refusal-type", f"{side}:receive-raised-{type(out.exc).__name__}", f"{where}: {out.exc!r}")
                tr.diverged = True
                break
            if emitted:
                tr.add("refused-bytes", f"{side}:receive-emitted-bytes", f"{where}: {emitted.hex()}")
            if after_state != "CLOSED":
                tr.add("state", f"{side}:not-CLOSED-after-protocol-error", f"{where}: {after_state}")
                tr.diverged = True
                break
            seen_closed = True
            continue

        # well-formed messages
        msgs = out.info["msgs"]
        verdicts = []
        failed_at = None
        for j, m in enumerate(msgs):
            v = mdl.incoming(m["kind"], m["id"], (m.get("result") or {}).get("code", 0), m.get("name") if m["kind"] == "extendedResp" else None)
            verdicts.append(v)
            tr.events.append(f"recv:{m['kind']}:{pre.state}:{'accept' if v.accepted else 'reject:' + v.why}")
            if not v.accepted:
                failed_at = j
                break
        if emitted:
            tr.add("refused-bytes", f"{side}:receive-emitted-bytes", f"{where}: {emitted.hex()}")
        if failed_at is None:
            if not out.ok:
                tr.add("recv-accept", f"{side}:delivery-rejected-but-must-be-accepted", f"{where}: messages {msgs!r}: {out.exc!r}")
                tr.diverged = True
                break
            if out.value != msgs:
                d = msgcheck.first_diff(msgs, out.value)
                tr.add("recv-messages", f"{side}:returned-messages-differ", f"{where}: first difference at {d}: delivered {msgs!r} returned {out.value!r}")
            if after_state != mdl.state:
                tr.add("state", f"{side}:state-after-accepted-delivery", f"{where}: state is {after_state}, model says {mdl.state}")
                tr.diverged = True
                break
        else:
            why = verdicts[failed_at].why
            if out.ok:
                tr.add("recv-accept", f"{side}:delivery-accepted-but-must-be-rejected({why})", f"{where}: messages {msgs!r} returned {out.value!r}")
                tr.diverged = True
                break
            if not isinstance(out.exc, ProtocolError):
                tr.add("refusal-type", f"{side}:receive-raised-{type(out.exc).__name__}", f"{where}: {out.exc!r}")
                tr.diverged = True
                break
            if after_state != "CLOSED":
                tr.add("state", f"{side}:not-CLOSED-after-protocol-error", f"{where}: {after_state}")
                tr.diverged = True
                break
            seen_closed = True

    if not tr.diverged and probe_open and sess.state(s) != "CLOSED":
        bad = _probe(s, side, mdl)
        if bad:
            tr.add("open-set", f"{side}:operations-in-progress-differ-from-model", f"after {tr.steps_run} steps: {bad}")
    tr.final_state = sess.state(s)  # type: ignore[attr-defined]
    return tr


def _probe(s: t.Any, side: str, mdl: model.Model) -> str:
    cand = set(mdl.issued) | set(mdl.open) | {0, max(mdl.issued or [0]) + 1}
    got = sess.in_progress_set(s, side, cand)
    if side == "server":
        want: t.Dict[int, t.Any] = {k: True for k in mdl.open}
    else:
        want = dict(mdl.open)
    if got != want:
        return f"probes say {got}, model says {want}"
    # a bind is possible exactly when nothing is in progress (documented for both sides)
    can = sess.bind_allowed(s, side)
    want_can = mdl.state != model.CLOSED and not mdl.open
    if can is not want_can:
        return f"bind possible: {can!r}, model says {want_can} (state {mdl.state}, in progress {dict(mdl.open)})"
    return ""


def _check_emitted(tr: Trace, side: str, emitted: bytes, out: Outcome, where: str) -> None:
    """Bytes emitted by an accepted call reference-decode to exactly the message asked for."""
    exp = out.expected_msg
    units, tail, hard = ber.frame(emitted)
    if hard is not None or tail or len(units) != 1:
        tr.add("emitted", f"{side}:accepted-call-did-not-emit-exactly-one-message", f"{where}: emitted {emitted.hex()}")
        return
    try:
        m, _devs = rfc4511.decode(emitted)
    except rfc4511.DecodeError as e:
        tr.add("emitted", f"{side}:emitted-bytes-undecodable", f"{where}: {emitted.hex()}: {e}")
        return
    if exp is not None and m != exp:
        d = msgcheck.first_diff(exp, m)
        tr.add("emitted", f"{side}:emitted-message-differs:{msgcheck.diff_field(d)}", f"{where}: asked for {exp!r}, bytes say {m!r}")


# ---------------------------------------------------------------------------------------- plain runner (transcripts)


class Entry(t.NamedTuple):
    kind: str
    ok: bool
    exc: t.Optional[str]
    value: t.Any
    state: str
    emitted: bytes  # bytes drained right after the step (full-drain mode) or returned by the drain step


def run_plain(
    side: str,
    steps: t.Sequence[t.Dict[str, t.Any]],
    full_drain: bool = True,
    pending_oracle: t.Optional[t.Callable[[int], int]] = None,
    session: t.Any = None,
    mdl: t.Optional[model.Model] = None,
) -> t.List[Entry]:
    """Run the steps on a real session and record what is observable. The model is only bookkeeping for
    resolving symbolic ids; it is driven by the implementation's own outcomes (no verdicts)."""
    s = session if session is not None else sess.new(side)
    mdl = mdl if mdl is not None else model.Model(side)
    out: t.List[Entry] = []
    for i, step in enumerate(steps):
        if step["op"] == "drain":
            amount = step["amount"]
            if isinstance(amount, tuple):
                pend = pending_oracle(i) if pending_oracle is not None else 0
                amount = max(0, pend + amount[1])
            if full_drain:
                out.append(Entry("drain", True, None, None, sess.state(s), b""))
                continue
            try:
                d = s.data_to_send(amount)
                out.append(Entry("drain", True, None, amount, sess.state(s), d))
            except BaseException as e:
                out.append(Entry("drain", False, type(e).__name__, amount, sess.state(s), b""))
            continue
        o = exec_step(s, side, step, mdl)
        if o.kind == "call" and o.ok:
            what = o.info["what"]
            if side == "client" or what == "unbind":
                if side == "client":
                    mdl.client_called(what, o.value if what != "unbind" else None)
                else:
                    mdl.server_called("unbind", 0)
            else:
                mdl.server_called(what if what != "notice" else "extended", o.info["id"], step.get("code", 0), o.info["name"])
        elif o.kind == "recv":
            for m in o.info["msgs"]:
                v = mdl.incoming(m["kind"], m["id"], (m.get("result") or {}).get("code", 0), m.get("name") if m["kind"] == "extendedResp" else None)
                if not v.accepted:
                    break
            if not o.ok:
                mdl._close()
        elif o.kind == "garbage" and not o.ok:
            mdl._close()
        emitted = sess.drain(s) if full_drain else b""
        out.append(Entry(o.kind, o.ok, type(o.exc).__name__ if o.exc is not None else None, o.value, sess.state(s), emitted))
    return out
