"""Near-collision 'twins' of abstract values and in-place edits of library objects.

A check that builds a fresh object for every case never notices state that survives between calls: a memo table keyed
on too little (case-folded / stripped / truncated / normalised text, object identity), a reused buffer, a lazily built
lookup.  Random pairs of cases almost never collide under such a key; a twin is built to collide: the same value with
some text leaves changed only in case, normalisation form, padding, or only beyond a short prefix.  The twin is
processed first, then the real value is checked by the ordinary oracle; afterwards the already-processed object is
edited in place (its list fields take the twin's elements) and checked again.
"""

from __future__ import annotations

import dataclasses
import typing as t
import unicodedata

from . import msgcheck, rfc4511

MODES = ["swapcase", "lower", "upper", "tail", "head", "nfc", "nfd", "pad", "strip", "same", "prefix8", "unencodable"]


def twin_leaf(v: t.Any, mode: str) -> t.Any:
    if isinstance(v, str):
        if mode == "swapcase":
            return v.swapcase()
        if mode == "lower":
            return v.lower()
        if mode == "upper":
            return v.upper()
        if mode == "tail":
            return v[:-1] + chr((ord(v[-1]) ^ 1) or 0x62) if v else "b"
        if mode == "head":
            return chr((ord(v[0]) ^ 1) or 0x62) + v[1:] if v else "b"
        if mode == "nfc":
            return unicodedata.normalize("NFC", v)
        if mode == "nfd":
            return unicodedata.normalize("NFD", v)
        if mode == "pad":
            return v + " "
        if mode == "strip":
            return v.strip()
        if mode == "prefix8":
            return v[:8] + v[8:][::-1] + "z"
        if mode == "unencodable":
            return v + "\udc80"  # no UTF-8 encoding exists: packing the twin fails part-way through
        return v
    if isinstance(v, bytes):
        if mode == "swapcase":
            return v.swapcase()
        if mode == "lower":
            return v.lower()
        if mode == "upper":
            return v.upper()
        if mode == "tail":
            return v[:-1] + bytes([v[-1] ^ 1]) if v else b"b"
        if mode == "head":
            return bytes([v[0] ^ 1]) + v[1:] if v else b"b"
        if mode == "pad":
            return v + b" "
        if mode == "strip":
            return v.strip()
        if mode == "prefix8":
            return v[:8] + v[8:][::-1] + b"z"
        return v
    return v


def twin(m: t.Dict[str, t.Any], mode: str, mask: int) -> t.Dict[str, t.Any]:
    """The same message with the text/octet leaves selected by ``mask`` (bit i%16 for leaf i) replaced by their twin."""
    out = m
    for i, path in enumerate(msgcheck._leaf_paths(m)):
        if not (mask >> (i % 16)) & 1:
            continue
        cur: t.Any = m
        for k in path:
            cur = cur[k]
        if isinstance(cur, str) and cur in msgcheck._TAG_WORDS and isinstance(path[-1], int) and path[-1] == 0:
            continue
        new = twin_leaf(cur, mode)
        if isinstance(new, str) and path[:1] == ("controls",) and new in rfc4511.KNOWN_OIDS:
            continue  # a generic control must not carry a library-known OID
        if new != cur:
            out = msgcheck._set_path(out, path, new)
    return out


def inplace_mix(a: t.Any, b: t.Any, depth: int = 0) -> int:
    """Edit ``a`` in place so that its list fields hold ``b``'s elements (a and b have the same shape); scalar fields
    of frozen dataclasses stay.  -> number of lists that were replaced with different content."""
    n = 0
    if depth > 60 or not dataclasses.is_dataclass(a) or type(a) is not type(b):
        return 0
    for f in dataclasses.fields(a):
        va, vb = getattr(a, f.name, None), getattr(b, f.name, None)
        if isinstance(va, list) and isinstance(vb, list):
            if va is not vb:
                va[:] = vb
                n += 1
        else:
            n += inplace_mix(va, vb, depth + 1)
    return n


def poison_parser(parse: t.Callable[[str], t.Any], text: str) -> None:
    """Hand a near-collision twin of ``text`` to the parser first (result and errors ignored): a memo table keyed on
    case-folded / stripped / truncated text would then answer the real input with the twin's result."""
    mode = MODES[len(text) % len(MODES)]
    tw = twin_leaf(text, mode)
    if tw == text:
        tw = twin_leaf(text, "swapcase")
    if tw == text:
        return
    try:
        parse(tw)
    except Exception:
        pass
