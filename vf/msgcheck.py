"""Helpers shared by the message-level properties (C01-C06)."""

from __future__ import annotations

import os
import sys
import traceback
import typing as t

from . import gens

_PKG = "sansldap"


def exc_site(e: BaseException, innermost: bool = False) -> str:
    """'<ExcType>@<innermost sansldap function that is not in asn1.py>' (falls back to asn1 frames).

    innermost=True: the innermost sansldap frame whatever its file (root-cause site of an escaped
    exception); RecursionError has no meaningful site."""
    if isinstance(e, RecursionError):
        return "RecursionError"
    tb = e.__traceback__
    best = None
    best_any = None
    while tb is not None:
        code = tb.tb_frame.f_code
        fn = code.co_filename.replace(os.sep, "/")
        if f"/{_PKG}/" in fn:
            name = getattr(code, "co_qualname", code.co_name)
            best_any = f"{os.path.basename(fn)}:{name}"
            if not fn.endswith("/asn1.py"):
                best = best_any
        tb = tb.tb_next
    if innermost:
        return f"{type(e).__name__}@{best_any or '?'}"
    return f"{type(e).__name__}@{best or best_any or '?'}"


def first_diff(a: t.Any, b: t.Any, path: str = "") -> t.Optional[str]:
    """Path of the first difference between two plain-data values (None when equal)."""
    if type(a) is not type(b):
        return path or "<root>"
    if isinstance(a, dict):
        for k in sorted(set(a) | set(b), key=str):
            if k not in a or k not in b:
                return f"{path}.{k}" if path else str(k)
            d = first_diff(a[k], b[k], f"{path}.{k}" if path else str(k))
            if d is not None:
                return d
        return None
    if isinstance(a, (list, tuple)):
        if len(a) != len(b):
            return f"{path}#len"
        for i, (x, y) in enumerate(zip(a, b)):
            d = first_diff(x, y, f"{path}[{i}]")
            if d is not None:
                return d
        return None
    return None if a == b else (path or "<root>")


def diff_field(path: t.Optional[str]) -> str:
    """Coarse, index-free rendering of a diff path for bucket keys."""
    if path is None:
        return "none"
    out = []
    num = ""
    skip = False
    for ch in path:
        if ch == "[":
            skip = True
            continue
        if ch == "]":
            skip = False
            out.append("[]")
            continue
        if not skip:
            out.append(ch)
    return "".join(out)


def _walk_fields(o: t.Any) -> t.Iterator[t.Any]:
    if isinstance(o, dict):
        for v in o.values():
            yield from _walk_fields(v)
    elif isinstance(o, (list, tuple)):
        for v in o:
            yield from _walk_fields(v)
    else:
        yield o


KNOWN_CODES = {0, 1, 2, 3, 4, 5, 6, 7, 8, 10, 11, 12, 13, 14, 16, 17, 18, 19, 20, 21, 32, 33, 34, 36, 48, 49, 50, 51, 52,
               53, 54, 64, 65, 66, 67, 68, 69, 71, 80}


def message_classes(m: t.Dict[str, t.Any]) -> t.Set[str]:
    """Non-triviality classes of an abstract message (C01/C03 rule)."""
    cls: t.Set[str] = set()
    if m["controls"]:
        cls.add("has-control")
        for c in m["controls"]:
            cls.add(f"control:{c[0]}")
    for v in _walk_fields({k: v for k, v in m.items() if k != "kind"}):
        if isinstance(v, (bytes, str)) and len(v) >= 128:
            cls.add("field>=128")
        if isinstance(v, bool):
            cls.add(f"bool:{v}")
        elif isinstance(v, int) and (v < 0 or abs(v) >= 2**31):
            cls.add("int-neg-or-big")
    if "filter" in m:
        d = gens.filter_depth(m["filter"])
        if d >= 2:
            cls.add("filter-depth>=2")
        for k in gens.filter_kinds(m["filter"]):
            cls.add(f"filter:{k}")
    r = m.get("result")
    if r is not None:
        if r["code"] not in KNOWN_CODES:
            cls.add("unknown-result-code")
        if r["referral"] == []:
            cls.add("empty-present:referral")
    for k in ("sasl", "value"):
        if m.get(k) == b"":
            cls.add(f"empty-present:{k}")
    if m.get("name") == "" and m["kind"] == "extendedResp":
        cls.add("empty-present:name")
    if m["kind"] == "bindRequest":
        cls.add(f"auth:{m['auth'][0]}")
        if m["auth"][0] == "sasl" and m["auth"][2] == b"":
            cls.add("empty-present:credentials")
    return cls


NT_CLASSES = ("has-control", "field>=128", "filter-depth>=2", "int-neg-or-big", "unknown-result-code")


def is_nontrivial(classes: t.Set[str]) -> bool:
    return any(c in classes for c in NT_CLASSES) or any(c.startswith("empty-present") for c in classes)


# ---------------------------------------------------------------------------------------- boundary sweep (finite, enumerated)


def _templates() -> t.Dict[str, t.Dict[str, t.Any]]:
    res = {"code": 0, "matched": "dc=x", "diag": "d", "referral": ["ldap://a"]}
    ctrl = [("generic", "1.2.3", True, b"v"), ("paged", False, 5, b"c")]
    return {
        "bindRequest/simple": {"kind": "bindRequest", "id": 1, "controls": ctrl, "version": 3, "name": "n", "auth": ("simple", "p")},
        "bindRequest/sasl": {"kind": "bindRequest", "id": 1, "controls": [], "version": 3, "name": "n", "auth": ("sasl", "M", b"c")},
        "bindResponse": {"kind": "bindResponse", "id": 1, "controls": [], "result": dict(res), "sasl": b"s"},
        "unbindRequest": {"kind": "unbindRequest", "id": 1, "controls": ctrl},
        "searchRequest": {
            "kind": "searchRequest", "id": 2, "controls": [], "base": "dc=b", "scope": 2, "deref": 0, "size": 0, "time": 0,
            "typesOnly": False,
            "filter": ("and", [("eq", "a", b"v"), ("sub", "s", b"i", [b"x"], b"f"), ("ext", "r", "t", b"v", True),
                               ("present", "p"), ("not", ("ge", "g", b"1"))]),
            "attributes": ["cn"],
        },
        "searchResEntry": {"kind": "searchResEntry", "id": 2, "controls": [], "name": "cn=e", "attributes": [("cn", [b"v1", b"v2"])]},
        "searchResDone": {"kind": "searchResDone", "id": 2, "controls": [], "result": dict(res)},
        "searchResRef": {"kind": "searchResRef", "id": 2, "controls": [], "uris": ["ldap://u"]},
        "extendedReq": {"kind": "extendedReq", "id": 3, "controls": [], "name": "1.2", "value": b"v"},
        "extendedResp": {"kind": "extendedResp", "id": 3, "controls": [], "result": dict(res), "name": "1.2", "value": b"v"},
    }


def _leaf_paths(o: t.Any, path: t.Tuple[t.Any, ...] = ()) -> t.Iterator[t.Tuple[t.Any, ...]]:
    if isinstance(o, dict):
        for k, v in o.items():
            if k in ("kind",):
                continue
            yield from _leaf_paths(v, path + (k,))
    elif isinstance(o, (list, tuple)):
        for i, v in enumerate(o):
            if isinstance(o, tuple) and i == 0 and isinstance(v, str) and path and not isinstance(path[-1], int) is False:
                pass
            yield from _leaf_paths(v, path + (i,))
    elif isinstance(o, (str, bytes)) and not isinstance(o, bool):
        yield path


def _set_path(o: t.Any, path: t.Tuple[t.Any, ...], value: t.Any) -> t.Any:
    if not path:
        return value
    k = path[0]
    if isinstance(o, dict):
        d = dict(o)
        d[k] = _set_path(o[k], path[1:], value)
        return d
    if isinstance(o, list):
        l = list(o)
        l[k] = _set_path(o[k], path[1:], value)
        return l
    if isinstance(o, tuple):
        l = list(o)
        l[k] = _set_path(o[k], path[1:], value)
        return tuple(l)
    raise TypeError(o)


_TAG_WORDS = {"simple", "sasl", "generic", "paged", "showDeleted", "showDeactivatedLink", "and", "or", "not", "eq", "sub",
              "ge", "le", "present", "approx", "ext"}


def boundary_cases(sizes: t.Sequence[int]) -> t.List[t.Dict[str, t.Any]]:
    """Every str/bytes field of every message kind set to every boundary size."""
    out = []
    for tname, tmpl in _templates().items():
        for path in _leaf_paths(tmpl):
            cur = tmpl
            for k in path:
                cur = cur[k]
            # do not touch discriminator words of tagged tuples
            if isinstance(cur, str) and cur in _TAG_WORDS and isinstance(path[-1], int) and path[-1] == 0:
                continue
            # the control type of a generic control must stay away from known OIDs: sizes do that by themselves
            for n in sizes:
                val: t.Any = ("x" * n) if isinstance(cur, str) else (b"\xa5" * n)
                out.append({"m": _set_path(tmpl, path, val), "tail": b"", "field": f"{tname}:{'.'.join(map(str, path))}", "size": n})
    return out


def magic_cases() -> t.List[t.Dict[str, t.Any]]:
    """Every str/bytes field of every message kind set to every value of a list of values that code tends to
    special-case ('*', '', NUL, 'dn', known OIDs, attribute names with options, normalisation-sensitive text ...)."""
    out = []
    text_vals = [v.decode("latin-1") for v in gens.MAGIC_OCTETS] + gens.ATTRIBUTE_NAMES + gens.NORMALISATION_SENSITIVE + gens.known_oids() + [""] + ["a" + c + "b" for c in gens.BOUNDARY_CHARS]
    byte_vals = list(gens.MAGIC_OCTETS) + [b"", "e\u0301".encode(), b"\xc3", b"1.3.6.1.4.1.1466.20036"]
    for tname, tmpl in _templates().items():
        for path in _leaf_paths(tmpl):
            cur = tmpl
            for k in path:
                cur = cur[k]
            if isinstance(cur, str) and cur in _TAG_WORDS and isinstance(path[-1], int) and path[-1] == 0:
                continue
            for val in (text_vals if isinstance(cur, str) else byte_vals):
                if isinstance(val, str) and path[:1] == ("controls",) and val in gens.KNOWN_OIDS:
                    continue  # a generic control must not carry a library-known OID
                out.append({"m": _set_path(tmpl, path, val), "tail": b"", "field": f"{tname}:{'.'.join(map(str, path))}", "size": repr(val)[:30]})
    return out
