"""Tagged JSON codec for plain-data cases (bytes, tuples, big ints survive a round trip)."""

from __future__ import annotations

import json
import typing as t


def enc(o: t.Any) -> t.Any:
    if o is None or isinstance(o, (bool, str)):
        return o
    if isinstance(o, int):
        # JSON readers of other languages lose precision > 2^53; keep them textual.
        if -(2**53) < o < 2**53:
            return o
        return {"$i": str(o)}
    if isinstance(o, float):
        return o
    if isinstance(o, (bytes, bytearray, memoryview)):
        return {"$b": bytes(o).hex()}
    if isinstance(o, tuple):
        return {"$t": [enc(x) for x in o]}
    if isinstance(o, list):
        return [enc(x) for x in o]
    if isinstance(o, dict):
        if all(isinstance(k, str) for k in o):
            if any(k.startswith("$") for k in o):
                return {"$d": [[enc(k), enc(v)] for k, v in o.items()]}
            return {k: enc(v) for k, v in o.items()}
        return {"$d": [[enc(k), enc(v)] for k, v in o.items()]}
    if isinstance(o, (set, frozenset)):
        return {"$s": [enc(x) for x in sorted(o, key=repr)]}
    raise TypeError(f"jsonx cannot encode {type(o).__name__}: {o!r}")


def dec(o: t.Any) -> t.Any:
    if isinstance(o, list):
        return [dec(x) for x in o]
    if isinstance(o, dict):
        if len(o) == 1:
            ((k, v),) = o.items()
            if k == "$b":
                return bytes.fromhex(v)
            if k == "$t":
                return tuple(dec(x) for x in v)
            if k == "$i":
                return int(v)
            if k == "$d":
                return {_hashable(dec(a)): dec(b) for a, b in v}
            if k == "$s":
                return frozenset(_hashable(dec(x)) for x in v)
        return {k: dec(v) for k, v in o.items()}
    return o


def _hashable(o: t.Any) -> t.Any:
    if isinstance(o, list):
        return tuple(_hashable(x) for x in o)
    return o


def dumps(o: t.Any, **kw: t.Any) -> str:
    # surrogates (used by the filter parser for raw bytes) must survive: ensure_ascii=True
    return json.dumps(enc(o), ensure_ascii=True, **kw)


def loads(s: str) -> t.Any:
    return dec(json.loads(s))


def brief(o: t.Any, limit: int = 96, depth: int = 0) -> t.Any:
    """A JSON-able, abbreviated rendering of a case for evidence samples."""
    if depth > 40 and isinstance(o, (tuple, list, dict, set, frozenset)):
        return "...(nested deeper)"
    if isinstance(o, (bytes, bytearray, memoryview)):
        b = bytes(o)
        if len(b) > limit:
            return {"$b": b[:limit].hex() + "...", "len": len(b)}
        return {"$b": b.hex()}
    if isinstance(o, str):
        if len(o) > limit * 2:
            return o[: limit * 2] + f"...(+{len(o) - limit * 2} chars)"
        return o
    if isinstance(o, int) and not isinstance(o, bool):
        if -(2**53) < o < 2**53:
            return o
        s = str(o)
        return {"$i": s if len(s) < 80 else s[:40] + "..." + s[-10:], "bits": o.bit_length()}
    if isinstance(o, tuple):
        return {"$t": [brief(x, limit, depth + 1) for x in o[:40]] + (["..."] if len(o) > 40 else [])}
    if isinstance(o, list):
        return [brief(x, limit, depth + 1) for x in o[:40]] + ([f"...(+{len(o) - 40})"] if len(o) > 40 else [])
    if isinstance(o, dict):
        return {str(k): brief(v, limit, depth + 1) for k, v in o.items()}
    if isinstance(o, (set, frozenset)):
        return {"$s": [brief(x, limit, depth + 1) for x in sorted(o, key=repr)[:40]]}
    if o is None or isinstance(o, (bool, float)):
        return o
    return repr(o)[:200]
