"""Reference RFC 4512 schema-description parser and sentence generator (independent of sansldap.schema).

kinds: "objectclass", "attributetype", "ditcontentrule".  Parsed/derived values are plain dicts whose keys are
the field names of the library's dataclasses (enums by value).
"""

from __future__ import annotations

import typing as t

from hypothesis import strategies as st

from . import gens

ALPHA = "abcdefghijklmnopqrstuvwxyzABCDEFGHIJKLMNOPQRSTUVWXYZ"
DIGIT = "0123456789"
KEYCHAR = ALPHA + DIGIT + "-"

KINDS = ("objectclass", "attributetype", "ditcontentrule")
OC_KINDS = ("ABSTRACT", "STRUCTURAL", "AUXILIARY")
USAGES = ("userApplications", "directoryOperation", "distributedOperation", "dSAOperation")


class RefSchemaError(Exception):
    pass


def defaults(kind: str) -> t.Dict[str, t.Any]:
    if kind == "objectclass":
        return {"oid": None, "names": [], "description": None, "obsolete": False, "super_types": [], "kind": "STRUCTURAL",
                "must": [], "may": [], "extensions": {}}
    if kind == "attributetype":
        return {"oid": None, "names": [], "description": None, "obsolete": False, "super_type": None, "equality": None,
                "ordering": None, "substrings": None, "syntax": None, "syntax_length": None, "single_value": False,
                "collective": False, "no_user_modification": False, "usage": "userApplications", "extensions": {}}
    if kind == "ditcontentrule":
        return {"oid": None, "names": [], "description": None, "obsolete": False, "aux": [], "must": [], "may": [], "never": [],
                "extensions": {}}
    raise ValueError(kind)


# ---------------------------------------------------------------------------------------- parser


class _P:
    def __init__(self, s: str) -> None:
        self.s = s
        self.i = 0

    def peek(self, n: int = 1) -> str:
        return self.s[self.i : self.i + n]

    def wsp(self) -> None:
        while self.peek() == " ":
            self.i += 1

    def sp(self) -> None:
        if self.peek() != " ":
            raise RefSchemaError(f"SP expected at {self.i}")
        self.wsp()

    def lit(self, x: str) -> None:
        if self.peek(len(x)) != x:
            raise RefSchemaError(f"{x!r} expected at {self.i}")
        self.i += len(x)

    def try_keyword(self, kw: str) -> bool:
        """[ SP kw ] - consumes SP and the keyword when present (keyword must end at a space, paren or end)"""
        j = self.i
        if self.peek() != " ":
            return False
        self.wsp()
        if self.peek(len(kw)) == kw and self.s[self.i + len(kw) : self.i + len(kw) + 1] in (" ", ")", ""):
            self.i += len(kw)
            return True
        self.i = j
        return False

    def number(self) -> str:
        j = self.i
        while self.peek() and self.peek() in DIGIT:
            self.i += 1
        n = self.s[j : self.i]
        if not n or (len(n) > 1 and n[0] == "0"):
            raise RefSchemaError(f"number expected at {j}")
        return n

    def numericoid(self) -> str:
        j = self.i
        self.number()
        if self.peek() != ".":
            raise RefSchemaError(f"numericoid needs >= 2 arcs at {j}")
        while self.peek() == ".":
            self.i += 1
            self.number()
        return self.s[j : self.i]

    def descr(self) -> str:
        j = self.i
        if not self.peek() or self.peek() not in ALPHA:
            raise RefSchemaError(f"descr expected at {j}")
        while self.peek() and self.peek() in KEYCHAR:
            self.i += 1
        return self.s[j : self.i]

    def oid(self) -> str:
        if self.peek() and self.peek() in DIGIT:
            return self.numericoid()
        return self.descr()

    def oids(self) -> t.List[str]:
        if self.peek() == "(":
            self.i += 1
            self.wsp()
            out = [self.oid()]
            while True:
                j = self.i
                self.wsp()
                if self.peek() == "$":
                    self.i += 1
                    self.wsp()
                    out.append(self.oid())
                else:
                    self.i = j
                    break
            self.wsp()
            self.lit(")")
            return out
        return [self.oid()]

    def qdescr(self) -> str:
        self.lit("'")
        d = self.descr()
        self.lit("'")
        return d

    def qdescrs(self) -> t.List[str]:
        if self.peek() == "(":
            self.i += 1
            self.wsp()
            out = []
            if self.peek() == "'":
                out.append(self.qdescr())
                while True:
                    j = self.i
                    if self.peek() == " ":
                        self.wsp()
                        if self.peek() == "'":
                            out.append(self.qdescr())
                            continue
                    self.i = j
                    break
            self.wsp()
            self.lit(")")
            return out
        return [self.qdescr()]

    def qdstring(self) -> str:
        self.lit("'")
        out = []
        while True:
            c = self.peek()
            if c == "":
                raise RefSchemaError("unterminated qdstring")
            if c == "'":
                break
            if c == "\\":
                e = self.peek(3)
                if e == "\\27":
                    out.append("'")
                elif e in ("\\5c", "\\5C"):
                    out.append("\\")
                else:
                    raise RefSchemaError(f"bad escape at {self.i}")
                self.i += 3
                continue
            out.append(c)
            self.i += 1
        self.lit("'")
        if not out:
            raise RefSchemaError("empty dstring")
        return "".join(out)

    def qdstrings(self) -> t.List[str]:
        if self.peek() == "(":
            self.i += 1
            self.wsp()
            out = []
            if self.peek() == "'":
                out.append(self.qdstring())
                while True:
                    j = self.i
                    if self.peek() == " ":
                        self.wsp()
                        if self.peek() == "'":
                            out.append(self.qdstring())
                            continue
                    self.i = j
                    break
            self.wsp()
            self.lit(")")
            return out
        return [self.qdstring()]

    def extensions(self) -> t.Dict[str, t.List[str]]:
        out: t.Dict[str, t.List[str]] = {}
        while True:
            j = self.i
            if self.peek() != " ":
                break
            self.wsp()
            if self.peek(2) not in ("X-", "x-"):
                self.i = j
                break
            self.i += 2
            k = self.i
            while self.peek() and self.peek() in ALPHA + "-_":
                self.i += 1
            key = self.s[k : self.i]
            if not key:
                raise RefSchemaError("empty xstring")
            self.sp()
            out[key] = self.qdstrings()
        return out


def parse(kind: str, text: str) -> t.Dict[str, t.Any]:
    p = _P(text)
    f = defaults(kind)
    p.lit("(")
    p.wsp()
    f["oid"] = p.numericoid()
    if p.try_keyword("NAME"):
        p.sp()
        f["names"] = p.qdescrs()
    if p.try_keyword("DESC"):
        p.sp()
        f["description"] = p.qdstring()
    if p.try_keyword("OBSOLETE"):
        f["obsolete"] = True
    if kind == "objectclass":
        if p.try_keyword("SUP"):
            p.sp()
            f["super_types"] = p.oids()
        for k in OC_KINDS:
            if p.try_keyword(k):
                f["kind"] = k
                break
        if p.try_keyword("MUST"):
            p.sp()
            f["must"] = p.oids()
        if p.try_keyword("MAY"):
            p.sp()
            f["may"] = p.oids()
    elif kind == "attributetype":
        for kw, field in (("SUP", "super_type"), ("EQUALITY", "equality"), ("ORDERING", "ordering"), ("SUBSTR", "substrings")):
            if p.try_keyword(kw):
                p.sp()
                f[field] = p.oid()
        if p.try_keyword("SYNTAX"):
            p.sp()
            if p.peek() == "'":  # Active Directory's quoted variant (optionally with the length bound inside the quotes)
                p.i += 1
                f["syntax"] = p.numericoid()
                if p.peek() == "{":
                    p.i += 1
                    f["syntax_length"] = int(p.number())
                    p.lit("}")
                p.lit("'")
            else:
                f["syntax"] = p.numericoid()
                if p.peek() == "{":
                    p.i += 1
                    f["syntax_length"] = int(p.number())
                    p.lit("}")
        if p.try_keyword("SINGLE-VALUE"):
            f["single_value"] = True
        if p.try_keyword("COLLECTIVE"):
            f["collective"] = True
        if p.try_keyword("NO-USER-MODIFICATION"):
            f["no_user_modification"] = True
        if p.try_keyword("USAGE"):
            p.sp()
            for u in USAGES:
                if p.peek(len(u)) == u:
                    p.i += len(u)
                    f["usage"] = u
                    break
            else:
                raise RefSchemaError("usage expected")
    else:
        for kw, field in (("AUX", "aux"), ("MUST", "must"), ("MAY", "may"), ("NOT", "never")):
            if p.try_keyword(kw):
                p.sp()
                f[field] = p.oids()
    f["extensions"] = p.extensions()
    p.wsp()
    p.lit(")")
    if p.i != len(text):
        raise RefSchemaError("trailing data")
    return f


# ---------------------------------------------------------------------------------------- library projection


def lib_class(kind: str) -> t.Any:
    from sansldap import schema

    return {"objectclass": schema.ObjectClassDescription, "attributetype": schema.AttributeTypeDescription,
            "ditcontentrule": schema.DITContentRuleDescription}[kind]


def to_fields(obj: t.Any) -> t.Dict[str, t.Any]:
    import dataclasses
    import enum

    out = {}
    for fld in dataclasses.fields(obj):
        v = getattr(obj, fld.name)
        if isinstance(v, enum.Enum):
            v = v.value
        out[fld.name] = v
    return out


def from_fields(kind: str, f: t.Dict[str, t.Any]) -> t.Any:
    from sansldap import schema

    d = dict(f)
    if kind == "objectclass":
        d["kind"] = schema.ObjectClassKind(d["kind"])
    elif kind == "attributetype":
        d["usage"] = schema.AttributeTypeUsage(d["usage"])
    return lib_class(kind)(**d)


# ---------------------------------------------------------------------------------------- generators

_DESC_ALPHA = st.one_of(
    st.sampled_from(list("'\\|$(){} X-abcNAMEDESC'\\\n\t\x00\"éü€")),
    st.sampled_from(list("abc xyz012")),
    st.sampled_from(gens.BOUNDARY_CHARS),
    st.characters(exclude_categories=["Cs"]),
)


# fragments that look like the escapes / delimiters of the text form: literal text that contains them must survive
_DESC_FRAGMENTS = ["\\27", "\\5c", "\\5C", "\\7c", "\\", "\\\\", "''", "'", "\\2", "27", "5C", " X-A 'v'", "$ ", "( ", " )", "  ", "   ", "\n ",
                   "\r\n ", ")", "'\\27'", "{1}", "x-", "X-"]


def dtext(max_size: int = 12) -> st.SearchStrategy[str]:
    """Any non-empty Unicode text (description / extension value): single characters mixed with fragments that look
    like escapes, quotes, list delimiters and keywords."""
    atom = st.one_of(_DESC_ALPHA, _DESC_ALPHA, _DESC_ALPHA, st.sampled_from(_DESC_FRAGMENTS))
    return st.lists(atom, min_size=1, max_size=max(1, max_size // 2)).map("".join)


def oid_any() -> st.SearchStrategy[str]:
    return st.one_of(gens.descr(), gens.numericoid())


def oid_list(max_size: int = 4) -> st.SearchStrategy[t.List[str]]:
    return st.lists(oid_any(), max_size=max_size)


def xkeys() -> st.SearchStrategy[str]:
    plain = st.text(st.sampled_from(list(ALPHA + "-_")), min_size=1, max_size=8)
    # names that themselves look like a prefix or a keyword
    return st.one_of(plain, plain, plain, st.sampled_from(["x-vendor", "X-Y", "x", "X", "-", "_", "NAME", "DESC", "x-", "X--a", "ORIGIN"]))


def extensions() -> st.SearchStrategy[t.Dict[str, t.List[str]]]:
    return st.dictionaries(xkeys(), st.lists(dtext(8), max_size=3), max_size=3)


def fields(kind: str) -> st.SearchStrategy[t.Dict[str, t.Any]]:
    """Field combinations valid per RFC 4512 (for the object -> text -> object direction)."""
    common = {
        "oid": gens.numericoid(),
        "names": st.lists(gens.descr(), max_size=3),
        "description": st.none() | dtext(),
        "obsolete": st.booleans(),
        "extensions": extensions(),
    }
    if kind == "objectclass":
        common.update(super_types=oid_list(), kind=st.sampled_from(OC_KINDS), must=oid_list(), may=oid_list())
        return st.fixed_dictionaries(common)
    if kind == "ditcontentrule":
        common.update(aux=oid_list(), must=oid_list(), may=oid_list(), never=oid_list())
        return st.fixed_dictionaries(common)

    @st.composite
    def at(draw: t.Any) -> t.Dict[str, t.Any]:
        f = {k: draw(v) for k, v in common.items()}
        for k in ("super_type", "equality", "ordering", "substrings"):
            f[k] = draw(st.none() | oid_any())
        f["syntax"] = draw(st.none() | gens.numericoid())
        f["syntax_length"] = draw(st.none() | st.one_of(st.integers(0, 9), st.integers(10, 10**6))) if f["syntax"] is not None else None
        f["single_value"] = draw(st.booleans())
        f["collective"] = draw(st.booleans())
        f["no_user_modification"] = draw(st.booleans())
        f["usage"] = draw(st.sampled_from(USAGES))
        return f

    return at()


def _wsp(draw: t.Any) -> str:
    return " " * draw(st.sampled_from([0, 0, 1, 1, 2, 3]))


def _sp(draw: t.Any) -> str:
    return " " * draw(st.sampled_from([1, 1, 1, 2, 3]))


def _q(draw: t.Any, text: str) -> str:
    out = []
    for ch in text:
        if ch == "'":
            out.append("\\27")
        elif ch == "\\":
            out.append(draw(st.sampled_from(["\\5c", "\\5C"])))
        else:
            out.append(ch)
    return "'" + "".join(out) + "'"


def _oids_text(draw: t.Any, oids: t.List[str]) -> str:
    if len(oids) == 1 and draw(st.booleans()):
        return oids[0]
    return "(" + _wsp(draw) + (_wsp(draw) + "$" + _wsp(draw)).join(oids) + _wsp(draw) + ")"


@st.composite
def sentence(draw: t.Any, kind: str, ad_syntax: bool = True) -> t.Dict[str, t.Any]:
    """A sentence of the RFC 4512 grammar for ``kind`` with free spacing choices + the fields it denotes."""
    f = defaults(kind)
    stats = {"wide-spacing": 0, "paren-list": 0, "extensions": 0, "escapes": 0}
    parts = ["(" + _wsp(draw)]

    def sp() -> str:
        s = _sp(draw)
        if len(s) > 1:
            stats["wide-spacing"] += 1
        return s

    f["oid"] = draw(gens.numericoid())
    parts.append(f["oid"])
    if draw(st.booleans()):
        names = draw(st.lists(gens.descr(), max_size=3))
        if len(names) == 1 and draw(st.booleans()):
            parts.append(sp() + "NAME" + sp() + f"'{names[0]}'")
        else:
            stats["paren-list"] += 1
            parts.append(sp() + "NAME" + sp() + "(" + _wsp(draw) + "".join(
                (sp() if i else "") + f"'{n}'" for i, n in enumerate(names)) + _wsp(draw) + ")")
        f["names"] = names
    if draw(st.booleans()):
        d = draw(dtext())
        q = _q(draw, d)
        if "\\" in q:
            stats["escapes"] += 1
        parts.append(sp() + "DESC" + sp() + q)
        f["description"] = d
    if draw(st.booleans()):
        parts.append(sp() + "OBSOLETE")
        f["obsolete"] = True

    def oids_field(kw: str, field: str) -> None:
        if draw(st.booleans()):
            o = draw(st.lists(oid_any(), min_size=1, max_size=4))
            txt = _oids_text(draw, o)
            if txt.startswith("("):
                stats["paren-list"] += 1
            parts.append(sp() + kw + sp() + txt)
            f[field] = o

    if kind == "objectclass":
        oids_field("SUP", "super_types")
        if draw(st.booleans()):
            k = draw(st.sampled_from(OC_KINDS))
            parts.append(sp() + k)
            f["kind"] = k
        oids_field("MUST", "must")
        oids_field("MAY", "may")
    elif kind == "attributetype":
        for kw, field in (("SUP", "super_type"), ("EQUALITY", "equality"), ("ORDERING", "ordering"), ("SUBSTR", "substrings")):
            if draw(st.booleans()):
                o = draw(oid_any())
                parts.append(sp() + kw + sp() + o)
                f[field] = o
        if draw(st.booleans()):
            o = draw(gens.numericoid())
            form = draw(st.sampled_from(["plain", "plain", "len", "ad", "ad-len"] if ad_syntax else ["plain", "len"]))
            if form == "ad":
                parts.append(sp() + "SYNTAX" + sp() + f"'{o}'")
                stats["ad-syntax"] = 1
            elif form == "ad-len":
                n = draw(st.one_of(st.integers(0, 9), st.integers(10, 10**6)))
                parts.append(sp() + "SYNTAX" + sp() + f"'{o}{{{n}}}'")
                f["syntax_length"] = n
                stats["ad-syntax"] = 1
            elif form == "len":
                n = draw(st.one_of(st.integers(0, 9), st.integers(10, 10**6)))
                parts.append(sp() + "SYNTAX" + sp() + f"{o}{{{n}}}")
                f["syntax_length"] = n
            else:
                parts.append(sp() + "SYNTAX" + sp() + o)
            f["syntax"] = o
        for kw, field in (("SINGLE-VALUE", "single_value"), ("COLLECTIVE", "collective"), ("NO-USER-MODIFICATION", "no_user_modification")):
            if draw(st.booleans()):
                parts.append(sp() + kw)
                f[field] = True
        if draw(st.booleans()):
            u = draw(st.sampled_from(USAGES))
            parts.append(sp() + "USAGE" + sp() + u)
            f["usage"] = u
    else:
        for kw, field in (("AUX", "aux"), ("MUST", "must"), ("MAY", "may"), ("NOT", "never")):
            oids_field(kw, field)
    n_ext = draw(st.integers(0, 4))
    keys = draw(st.lists(xkeys(), min_size=n_ext, max_size=n_ext, unique=True))
    ext: t.Dict[str, t.List[str]] = {}
    for key in keys:
        vals = draw(st.lists(dtext(8), max_size=3))
        x = draw(st.sampled_from(["X-", "X-", "x-"]))
        if len(vals) == 1 and draw(st.booleans()):
            vt = _q(draw, vals[0])
        else:
            stats["paren-list"] += 1
            vt = "(" + _wsp(draw) + "".join((sp() if i else "") + _q(draw, v) for i, v in enumerate(vals)) + _wsp(draw) + ")"
        parts.append(sp() + x + key + sp() + vt)
        ext[key] = vals
        stats["extensions"] += 1
    f["extensions"] = ext
    parts.append(_wsp(draw) + ")")
    return {"kind": kind, "text": "".join(parts), "fields": f, "stats": stats}
