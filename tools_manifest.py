#!/usr/bin/env python3
"""Regenerates MANIFEST.json from the table below (keeps it valid at all times)."""
import json, os, sys

HERE = os.path.dirname(os.path.abspath(__file__))
sys.path.insert(0, HERE)

CHECKS = json.load(open(os.path.join(HERE, "manifest_checks.json")))

manifest = {
    "version": 1,
    "setup_cmd": "./check --setup",
    "hooks": {
        "guard": "SANSLDAP_VERIF",
        "enable": "none needed: no hook commits exist; checks import /repo/src directly in a fresh interpreter (SANSLDAP_VERIF=1 is exported for form only)",
        "baseline_off_cmd": "cd /repo && /venv/bin/python -m pytest -ra -q -p no:cacheprovider --timeout=900 --continue-on-collection-errors",
        "source_commits": [],
        "add_only": True,
    },
    "engines": [
        {
            "name": "vf",
            "path": "vf/",
            "serves_properties": [c["property_id"] for c in CHECKS["checks"]],
            "kind_free_text": "Hypothesis-driven collect-then-shrink property testing and exhaustive enumeration against independent reference implementations (BER/RFC 4511 codec, RFC 4515/4512 parsers, session model); atheris fuzz tiers",
        }
    ],
    "checks": [],
    "notes": CHECKS.get("notes", ""),
    "not_applicable": CHECKS.get("not_applicable", []),
}
for c in CHECKS["checks"]:
    pid = c["property_id"]
    manifest["checks"].append(
        {
            "property_id": pid,
            "quick_cmd": f"./check {pid} --tier quick",
            "thorough_cmd": f"./check {pid} --tier thorough",
            "evidence_file": f"evidence/{pid}.json",
            "replay_cmd_template": f"./check {pid} --replay {{path}}",
            "engine": "vf",
            "level_claimed": {"category": "exploration", "text": c["text"], "design_ref": c["design_ref"]},
            "level_note": c["level_note"],
            "technique": c["technique"],
        }
    )
json.dump(manifest, open(os.path.join(HERE, "MANIFEST.json"), "w"), indent=1)
print("MANIFEST.json written with", len(manifest["checks"]), "checks")
